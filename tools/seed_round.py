#!/usr/bin/env python3
"""Evaluate and collect one round of sub-agent seeded changes.

layout produced by the sub-agents:  <root>/<Cxx>/<V>/{patch.diff,demo.py,notes.md}   (V = A, B, ...)

  seed_round.py eval <root> [Cxx ...] [--redo] [--tier quick] [--jobs 3]
      runs tools/try_seeded.py --scratch for every finished variant that has no result yet
      (result: <root>/results/<Cxx><V>.json)
  seed_round.py collect <label> <root> [--missed-first CxxV,...]
      copies every confirmed variant to /verif/seeded/<Cxx>-<label><V>/ with meta.json
  seed_round.py table <root>
"""
import concurrent.futures as cf
import glob
import json
import os
import shutil
import subprocess
import sys

HERE = os.path.dirname(os.path.abspath(__file__))
VERIF = os.path.dirname(HERE)


def variants(root, props=None):
    for d in sorted(glob.glob(os.path.join(root, "C??", "?"))):
        pid, v = d.split(os.sep)[-2:]
        if props and pid not in props:
            continue
        if all(os.path.exists(os.path.join(d, f)) for f in ("patch.diff", "demo.py")):
            yield pid, v, d


def run_one(root, pid, v, d, tier, also="", cores="16"):
    res = os.path.join(root, "results", f"{pid}{v}.json")
    cmd = [sys.executable, os.path.join(HERE, "try_seeded.py"), os.path.join(d, "patch.diff"), os.path.join(d, "demo.py"), pid,
           "--scratch", "--tier", tier, "--cores", cores]
    if also:
        cmd += ["--also", also]
    r = subprocess.run(cmd, capture_output=True, text=True)
    last = (r.stdout.strip().splitlines() or ["{}"])[-1]
    try:
        out = json.loads(last)
    except Exception:
        out = {"error": (r.stdout + r.stderr)[-600:]}
    json.dump(out, open(res, "w"), indent=1)
    return pid, v, out


def main():
    cmd = sys.argv[1]
    if cmd == "eval":
        args = sys.argv[2:]
        redo = "--redo" in args
        tier = args[args.index("--tier") + 1] if "--tier" in args else "quick"
        jobs = int(args[args.index("--jobs") + 1]) if "--jobs" in args else 3
        also = args[args.index("--also") + 1] if "--also" in args else ""
        skip = set()
        for flag in ("--tier", "--jobs", "--also"):
            if flag in args:
                skip |= {args.index(flag), args.index(flag) + 1}
        pos = [a for i, a in enumerate(args) if i not in skip and not a.startswith("--")]
        root, props = pos[0], set(pos[1:])
        os.makedirs(os.path.join(root, "results"), exist_ok=True)
        todo = [(p, v, d) for p, v, d in variants(root, props) if redo or not os.path.exists(os.path.join(root, "results", f"{p}{v}.json"))]
        with cf.ThreadPoolExecutor(jobs) as ex:
            futs = [ex.submit(run_one, root, p, v, d, tier, also, str(max(4, 16 // jobs))) for p, v, d in todo]
            for f in cf.as_completed(futs):
                p, v, out = f.result()
                print(p + v, "clean=%s patched=%s tests=%s detected=%s" % (out.get("demo_clean_exit"), out.get("demo_patched_exit"), out.get("tests_ok"), out.get("detected")),
                      {k: (c["exit"], c["first"][:110]) for k, c in (out.get("checks") or {}).items()}, out.get("error", ""), flush=True)
    elif cmd == "table":
        root = sys.argv[2]
        for f in sorted(glob.glob(os.path.join(root, "results", "*.json"))):
            out = json.load(open(f))
            print(os.path.basename(f)[:-5], "clean=%s patched=%s tests=%s detected=%s" % (out.get("demo_clean_exit"), out.get("demo_patched_exit"), out.get("tests_ok"), out.get("detected")),
                  {k: (c["exit"], c["subchecks"]) for k, c in (out.get("checks") or {}).items()})
    elif cmd == "collect":
        label, root = sys.argv[2], sys.argv[3]
        missed = set(sys.argv[sys.argv.index("--missed-first") + 1].split(",")) if "--missed-first" in sys.argv else set()
        n = 0
        for pid, v, d in variants(root):
            res = os.path.join(root, "results", f"{pid}{v}.json")
            if not os.path.exists(res):
                continue
            r = json.load(open(res))
            ok = r.get("demo_clean_exit") == 0 and r.get("demo_patched_exit") not in (0, None) and r.get("tests_ok") is True
            if not ok:
                print("NOT CONFIRMED", pid, v, {k: r.get(k) for k in ("demo_clean_exit", "demo_patched_exit", "tests_ok", "tests_newly_failing", "error")})
                continue
            sid = f"{pid}-{label}{v}"
            out = os.path.join(VERIF, "seeded", sid)
            os.makedirs(out, exist_ok=True)
            shutil.copy(os.path.join(d, "patch.diff"), os.path.join(out, "patch.diff"))
            shutil.copy(os.path.join(d, "demo.py"), os.path.join(out, "demo.py"))
            notes = open(os.path.join(d, "notes.md")).read() if os.path.exists(os.path.join(d, "notes.md")) else ""
            files = sorted({l[6:].strip() for l in open(os.path.join(d, "patch.diff")) if l.startswith("+++ b/")})
            meta = {
                "id": sid, "property": pid, "notes": notes, "files": files,
                "source": "independent sub-agent given only the property text and a scratch worktree",
                "confirmed": {"demo_exit_unchanged_tree": r.get("demo_clean_exit"), "demo_exit_with_patch": r.get("demo_patched_exit"),
                              "all_baseline_stable_tests_pass_with_patch": r.get("tests_ok"),
                              "how": "tools/try_seeded.py: demo run with PYTHONPATH=/repo/src and with a patched scratch worktree; serial pytest run in the patched worktree compared with BASELINE.stable_pass"},
                "check_result": {"detected": r.get("detected"), "mode": r.get("mode", "repo"), "checks": r.get("checks")},
                "missed_before_strengthening": f"{pid}{v}" in missed,
            }
            json.dump(meta, open(os.path.join(out, "meta.json"), "w"), indent=1)
            n += 1
        print("collected", n)


if __name__ == "__main__":
    main()
