#!/venv/bin/python
"""Offline setup: make sure hypothesis is importable in /venv (install from the wheelhouse if
not), then run a few-second self-test of the harness against /repo."""
import subprocess, sys, os
HERE = os.path.dirname(os.path.abspath(__file__)); ROOT = os.path.dirname(HERE)
try:
    import hypothesis  # noqa: F401
except ImportError:
    subprocess.check_call([sys.executable, "-m", "pip", "install", "--no-index", "--find-links",
                           "/opt/veriftools/wheels", "hypothesis"])
import hypothesis
print("hypothesis", hypothesis.__version__)
# atheris (thorough tier of C11/C19) goes into /verif/.deps, beside the repository's packages
DEPS = os.path.join(ROOT, ".deps")
if not os.path.isdir(os.path.join(DEPS, "atheris")):
    r = subprocess.run([sys.executable, "-m", "pip", "install", "--no-index", "--find-links",
                        "/opt/veriftools/wheels", "--target", DEPS, "--no-deps", "atheris"],
                       capture_output=True, text=True)
    print("atheris install:", "ok" if r.returncode == 0 else "FAILED (fuzz tier will report inconclusive)\n" + r.stderr[-400:])
sys.path.insert(0, "/repo/src"); sys.path.insert(0, ROOT)
from vlib import harness
harness.assert_tree()
from vlib import ref, cgen
import numpy as np
c = cgen.build_circuit({"width": 3, "ops": [{"g": "CNOT", "p": [], "mods": [], "q": [2, 0]}]})
assert ref.close(ref.npm(c.to_unitary()), cgen.ref_circuit_matrix({"width": 3, "ops": [{"g": "CNOT", "p": [], "mods": [], "q": [2, 0]}]}))
print("self-test ok")
