#!/usr/bin/env python3
"""False-alarm test: run the checks against a behaviour-preserving change.

usage: try_benign.py <patch.diff> <property id> [--also Cxx,Cyy | --related] [--skip-tests] [--cores 8] [--tier quick] [--seed 1]

In a scratch worktree of /repo with the patch applied: (1) the baseline-stable tests must still pass (otherwise the
change is not benign and the result is ignored), (2) the property's quick check - and with --related every check whose
anchored files the patch touches - runs against the patched tree (OQ_VERIF_ROOT). Expected: exit 0 everywhere.
Prints a JSON summary on the last line; /repo is not touched."""
import argparse
import json
import os
import shutil
import subprocess
import sys
import tempfile
import xml.etree.ElementTree as ET

PY = "/venv/bin/python"
VERIF = os.path.dirname(os.path.dirname(os.path.abspath(__file__)))


def sh(cmd, **kw):
    return subprocess.run(cmd, shell=isinstance(cmd, str), capture_output=True, text=True, **kw)


def related(patch, own):
    files = {l[6:].strip() for l in open(patch) if l.startswith("+++ b/")}
    out = []
    for line in open(os.path.join(VERIF, "properties.jsonl")):
        p = json.loads(line)
        if p["id"] != own and files & set(p["anchors"].get("files", [])):
            out.append(p["id"])
    return out


def main():
    ap = argparse.ArgumentParser()
    ap.add_argument("patch"); ap.add_argument("prop")
    ap.add_argument("--also", default=""); ap.add_argument("--related", action="store_true")
    ap.add_argument("--skip-tests", action="store_true"); ap.add_argument("--cores", default="8")
    ap.add_argument("--tier", default="quick"); ap.add_argument("--seed", default="1")
    a = ap.parse_args()
    patch = os.path.abspath(a.patch)
    out = {"patch": patch, "property": a.prop}
    wt = tempfile.mkdtemp(prefix="oq-benign-")
    os.rmdir(wt)
    try:
        assert sh(f"git -C /repo worktree add --detach {wt} HEAD").returncode == 0
        r = sh(f"git -C {wt} apply {patch}")
        out["applies"] = r.returncode == 0
        if not out["applies"]:
            out["apply_error"] = r.stderr[-300:]
            print(json.dumps(out)); return 2
        if not a.skip_tests:
            xml = os.path.join(wt, "junit.xml")
            sh(f"cd {wt} && PYTHONPATH={wt}/src {PY} -m pytest -q -p no:cacheprovider --timeout=900 --continue-on-collection-errors --junitxml={xml} tests")
            base = json.load(open("/root/.vp/BASELINE.json"))["stable_pass"]
            passed = set()
            for tc in ET.parse(xml).getroot().iter("testcase"):
                if not any(ch.tag in ("failure", "error", "skipped") for ch in tc):
                    passed.add(tc.get("classname") + "::" + tc.get("name"))
            missing = [t for t in base if t not in passed]
            out["tests_ok"] = not missing
            out["tests_newly_failing"] = missing[:10]
        props = [a.prop] + [p for p in a.also.split(",") if p]
        if a.related:
            props += [p for p in related(patch, a.prop) if p not in props][: int(os.environ.get("BENIGN_MAX_RELATED", "99"))]
        results = {}
        rd = tempfile.mkdtemp(prefix="oq-benignrep-")
        for prop in props:
            env = dict(os.environ, VERIF_NO_EVIDENCE="1", VERIF_REPLAY_DIR=rd, VERIF_SEED=a.seed, OQ_VERIF_ROOT=wt, VERIF_CORES=a.cores)
            r = sh([PY, os.path.join(VERIF, "check.py"), prop, "--tier", a.tier], env=env, cwd=VERIF)
            lines = r.stdout.splitlines()
            firsts = [l.strip() for l in lines if l.strip().startswith("subcheck=")]
            cases = [l.strip() for l in lines if l.strip().startswith("case=")]
            results[prop] = {"exit": r.returncode, "violations": sum(1 for l in lines if l.startswith("VIOLATION")),
                             "first": firsts[:3], "case": [c[:400] for c in cases[:2]], "stderr": r.stderr[-600:] if r.returncode == 2 else ""}
        shutil.rmtree(rd, ignore_errors=True)
        out["checks"] = results
        out["quiet"] = all(v["exit"] == 0 for v in results.values())
    finally:
        sh(f"git -C /repo worktree remove --force {wt}")
        shutil.rmtree(wt, ignore_errors=True)
    print(json.dumps(out))
    return 0


if __name__ == "__main__":
    sys.exit(main())
