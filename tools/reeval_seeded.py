#!/usr/bin/env python3
"""Re-run the current quick checks against every seeded change under /verif/seeded and record the outcome in
meta.json ("current": detected / sub-checks / verif commit).

usage: reeval_seeded.py [--jobs 2] [--only C01-r1A,...] [--missing]   (--missing: only entries without "current" at HEAD)

Each patch is applied in a scratch worktree (tools/try_seeded.py --scratch --skip-tests); /repo is not touched."""
import concurrent.futures as cf
import glob
import json
import os
import subprocess
import sys

HERE = os.path.dirname(os.path.abspath(__file__))
VERIF = os.path.dirname(HERE)


def head():
    return subprocess.run(["git", "-C", VERIF, "rev-parse", "--short", "HEAD"], capture_output=True, text=True).stdout.strip()


def one(d, cores, commit):
    meta = json.load(open(os.path.join(d, "meta.json")))
    pid = meta["property"]
    r = subprocess.run([sys.executable, os.path.join(HERE, "try_seeded.py"), os.path.join(d, "patch.diff"), os.path.join(d, "demo.py"), pid,
                        "--scratch", "--skip-tests", "--cores", str(cores)], capture_output=True, text=True)
    try:
        out = json.loads((r.stdout.strip().splitlines() or ["{}"])[-1])
    except Exception:
        out = {"error": (r.stdout + r.stderr)[-400:]}
    chk = (out.get("checks") or {}).get(pid, {})
    meta["current"] = {"detected": bool(out.get("detected")), "exit": chk.get("exit"), "subchecks": [s.replace("subcheck=", "") for s in chk.get("subchecks", [])],
                       "first": chk.get("first", ""), "verif_commit": commit, "tier": "quick", "seed": 1,
                       "demo_exit_unchanged_tree": out.get("demo_clean_exit"), "demo_exit_with_patch": out.get("demo_patched_exit"), "error": out.get("error")}
    json.dump(meta, open(os.path.join(d, "meta.json"), "w"), indent=1)
    return meta["id"], meta["current"]


def main():
    a = sys.argv[1:]
    jobs = int(a[a.index("--jobs") + 1]) if "--jobs" in a else 2
    only = set(a[a.index("--only") + 1].split(",")) if "--only" in a else None
    commit = head()
    dirs = sorted(glob.glob(os.path.join(VERIF, "seeded", "*", "")))
    todo = []
    for d in dirs:
        sid = os.path.basename(d.rstrip("/"))
        if only and sid not in only:
            continue
        if "--missing" in a:
            m = json.load(open(os.path.join(d, "meta.json")))
            if m.get("current", {}).get("detected"):
                continue
        todo.append(d)
    with cf.ThreadPoolExecutor(jobs) as ex:
        for f in cf.as_completed([ex.submit(one, d, max(4, 16 // jobs), commit) for d in todo]):
            sid, cur = f.result()
            print(sid, "detected=%s" % cur["detected"], cur["subchecks"], cur.get("error") or "", flush=True)


if __name__ == "__main__":
    main()
