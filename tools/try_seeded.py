#!/usr/bin/env python3
"""Validate a seeded change and run the matching check against it.

usage: try_seeded.py <patch.diff> <demo.py> <property id> [--skip-tests] [--also Cxx,Cyy] [--tier quick]

1. demo exits 0 with the unchanged library (PYTHONPATH=/repo/src);
2. in a scratch worktree with the patch applied: demo exits non-zero, and every test of
   BASELINE.stable_pass still passes (serial run);
3. the patch is applied to /repo (git apply), the property's quick check is run against /repo,
   and the patch is undone (git checkout -- .) straight afterwards.
Prints a JSON summary on the last line. Scratch worktrees live under /tmp/oq-seedchk-* and are removed."""
import argparse, json, os, shutil, subprocess, sys, tempfile, xml.etree.ElementTree as ET

PY = "/venv/bin/python"
VERIF = os.path.dirname(os.path.dirname(os.path.abspath(__file__)))


def sh(cmd, **kw):
    return subprocess.run(cmd, shell=isinstance(cmd, str), capture_output=True, text=True, **kw)


def main():
    ap = argparse.ArgumentParser()
    ap.add_argument("patch"); ap.add_argument("demo"); ap.add_argument("prop")
    ap.add_argument("--skip-tests", action="store_true"); ap.add_argument("--also", default="")
    ap.add_argument("--tier", default="quick"); ap.add_argument("--seed", default="1")
    ap.add_argument("--scratch", action="store_true", help="run the checks against the patched scratch worktree (OQ_VERIF_ROOT) instead of applying the patch to /repo; allows parallel screening")
    ap.add_argument("--cores", default="16")
    a = ap.parse_args()
    patch, demo = os.path.abspath(a.patch), os.path.abspath(a.demo)
    out = {"patch": patch, "property": a.prop}
    assert sh("git -C /repo status --porcelain --untracked-files=no").stdout.strip() == "", "/repo has uncommitted changes"
    r = sh([PY, demo], env=dict(os.environ, PYTHONPATH="/repo/src"), cwd=tempfile.gettempdir())
    out["demo_clean_exit"] = r.returncode
    wt = tempfile.mkdtemp(prefix="oq-seedchk-")
    os.rmdir(wt)
    try:
        assert sh(f"git -C /repo worktree add --detach {wt} HEAD").returncode == 0
        r = sh(f"git -C {wt} apply {patch}")
        out["applies"] = r.returncode == 0
        if not out["applies"]:
            out["apply_error"] = r.stderr[-300:]
            print(json.dumps(out)); return 2
        r = sh([PY, demo], env=dict(os.environ, PYTHONPATH=wt + "/src"), cwd=tempfile.gettempdir())
        out["demo_patched_exit"] = r.returncode
        out["demo_patched_tail"] = (r.stdout + r.stderr)[-300:]
        if not a.skip_tests:
            xml = os.path.join(wt, "junit.xml")
            sh(f"cd {wt} && PYTHONPATH={wt}/src {PY} -m pytest -q -p no:cacheprovider --timeout=900 --continue-on-collection-errors --junitxml={xml} tests")
            base = json.load(open("/root/.vp/BASELINE.json"))["stable_pass"]
            passed = set()
            for tc in ET.parse(xml).getroot().iter("testcase"):
                if not any(ch.tag in ("failure", "error", "skipped") for ch in tc):
                    passed.add(tc.get("classname") + "::" + tc.get("name"))
            missing = [t for t in base if t not in passed]
            out["tests_newly_failing"] = missing[:10]
            out["tests_ok"] = not missing
        if a.scratch:
            results = {}
            rd = tempfile.mkdtemp(prefix="oq-seedrep-")
            for prop in [a.prop] + [p for p in a.also.split(",") if p]:
                env = dict(os.environ, VERIF_NO_EVIDENCE="1", VERIF_REPLAY_DIR=rd, VERIF_SEED=a.seed, OQ_VERIF_ROOT=wt, VERIF_CORES=a.cores)
                if a.skip_tests:
                    env["VERIF_STOP_AT_FIRST_VIOLATION"] = "1"
                r = sh([PY, os.path.join(VERIF, "check.py"), prop, "--tier", a.tier], env=env, cwd=VERIF)
                viol = [l for l in r.stdout.splitlines() if l.startswith("VIOLATION")]
                subs = sorted({l.strip().split(":")[0] for l in r.stdout.splitlines() if l.strip().startswith("subcheck=")})
                first = next((l.strip() for l in r.stdout.splitlines() if l.strip().startswith("subcheck=")), "")
                results[prop] = {"exit": r.returncode, "violations": len(viol), "subchecks": subs, "first": first[:300],
                                 "stderr": r.stderr[-300:] if r.returncode == 2 else ""}
            shutil.rmtree(rd, ignore_errors=True)
            out["checks"] = results
            out["mode"] = "scratch"
            out["detected"] = any(v["exit"] == 1 and v["violations"] for v in results.values())
    finally:
        sh(f"git -C /repo worktree remove --force {wt}")
        shutil.rmtree(wt, ignore_errors=True)
    if a.scratch:
        print(json.dumps(out))
        return 0
    # the checks, against /repo itself
    results = {}
    rd = tempfile.mkdtemp(prefix="oq-seedrep-")
    try:
        assert sh(f"git -C /repo apply {patch}").returncode == 0
        for prop in [a.prop] + [p for p in a.also.split(",") if p]:
            env = dict(os.environ, VERIF_NO_EVIDENCE="1", VERIF_REPLAY_DIR=rd, VERIF_SEED=a.seed)
            r = sh([PY, os.path.join(VERIF, "check.py"), prop, "--tier", a.tier], env=env, cwd=VERIF)
            viol = [l for l in r.stdout.splitlines() if l.startswith("VIOLATION")]
            subs = sorted({l.strip().split(":")[0] for l in r.stdout.splitlines() if l.strip().startswith("subcheck=")})
            first = next((l.strip() for l in r.stdout.splitlines() if l.strip().startswith("subcheck=")), "")
            results[prop] = {"exit": r.returncode, "violations": len(viol), "subchecks": subs, "first": first[:300],
                             "stderr": r.stderr[-300:] if r.returncode == 2 else ""}
    finally:
        sh("git -C /repo checkout -- .")
        shutil.rmtree(rd, ignore_errors=True)
    assert sh("git -C /repo status --porcelain --untracked-files=no").stdout.strip() == ""
    out["checks"] = results
    out["detected"] = any(v["exit"] == 1 and v["violations"] for v in results.values())
    print(json.dumps(out))
    return 0


if __name__ == "__main__":
    sys.exit(main())
