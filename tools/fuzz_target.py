#!/venv/bin/python
"""Atheris fuzz targets. Run by vlib/fuzz.py in a child process:
    fuzz_target.py <corpus dir> [libFuzzer flags]
env: OQ_FUZZ_TARGET (pauli_struct | pauli_text | expr), OQ_FUZZ_CRASH (file for the decoded failing
spec), OQ_FUZZ_SEEDED=1 (write a few valid seed inputs first), OQ_FUZZ_DECODE_ONLY=<json> (no
fuzzing: decode the corpus and write distinct non-trivial spec hashes + samples)."""
import json
import os
import struct
import sys
import warnings

warnings.simplefilter("ignore")
HERE = os.path.dirname(os.path.abspath(__file__))
ROOT = os.path.dirname(HERE)
REPO = os.environ.get("OQ_VERIF_ROOT", "/repo")
sys.path.insert(0, os.path.join(REPO, "src"))
sys.path.insert(0, ROOT)
sys.path.append(os.path.join(ROOT, ".deps"))

import atheris  # noqa: E402

TARGET = os.environ.get("OQ_FUZZ_TARGET", "pauli_struct")
INSTR = {"pauli_struct": ["orquestra.quantum.operators._pauli_operators"],
         "pauli_text": ["orquestra.quantum.operators._pauli_operators"],
         "expr": ["orquestra.quantum.circuits.symbolic"],
         "pauli_arith": ["orquestra.quantum.operators._pauli_operators"],
         "shots": ["orquestra.quantum.circuits._itertools", "orquestra.quantum.utils"],
         "marginal": ["orquestra.quantum.distributions._measurement_outcome_distribution"]}[TARGET]
with atheris.instrument_imports(include=INSTR):
    import orquestra.quantum.operators._pauli_operators  # noqa: F401
    import orquestra.quantum.circuits.symbolic.sympy_expressions  # noqa: F401
    import orquestra.quantum.circuits.symbolic.translations  # noqa: F401
    import orquestra.quantum.circuits._itertools  # noqa: F401
    import orquestra.quantum.utils  # noqa: F401
    import orquestra.quantum.distributions._measurement_outcome_distribution  # noqa: F401

from vlib import harness  # noqa: E402

harness.assert_tree()

from vlib import fuzzlib  # noqa: E402

def DECODE(data):
    return fuzzlib.DECODERS[TARGET](data, atheris.FuzzedDataProvider)


ORACLE = fuzzlib.ORACLES[TARGET]


_SEEN = {"n": 0, "nt": set(), "samples": []}


def _dump_stats():
    path = os.environ.get("OQ_FUZZ_STATS")
    if path:
        with open(path + ".tmp", "w") as f:
            json.dump({"executions": _SEEN["n"], "nt_hashes": sorted(_SEEN["nt"]), "samples": _SEEN["samples"]}, f, default=repr)
        os.replace(path + ".tmp", path)


def TestOneInput(data):
    spec = DECODE(data)
    try:
        nt = ORACLE(spec)
        _SEEN["n"] += 1
        if nt and len(_SEEN["nt"]) < 200000:
            h = harness.spec_hash(spec)
            if h not in _SEEN["nt"]:
                _SEEN["nt"].add(h)
                if len(_SEEN["samples"]) < 3:
                    _SEEN["samples"].append(spec)
        if _SEEN["n"] % 2000 == 0:
            _dump_stats()
    except harness.Violation as v:
        with open(os.environ["OQ_FUZZ_CRASH"], "w") as f:
            json.dump({"spec": spec, "message": str(v), "target": TARGET}, f, default=repr)
        raise


def seed_corpus(corpus):
    # a few small valid inputs (structure-aware bytes are opaque; these are just varied short blobs)
    for i, blob in enumerate([b"\x01\x01\x00\x00\x00", b"\x02\x02\x01\x01\x03\x02\x00\x05", b"\x03\x00\x02\x01\x07\x03\x02" * 2,
                              bytes(range(40)), b"\xff" * 16, b"\x04\x03\x08\x02\x06\x01\x02\x09" * 3]):
        with open(os.path.join(corpus, "seed%d" % i), "wb") as f:
            f.write(blob)


if __name__ == "__main__":
    corpus = sys.argv[1]
    dec = os.environ.get("OQ_FUZZ_DECODE_ONLY")
    if dec:
        hashes, samples, n = set(), [], 0
        for fn in sorted(os.listdir(corpus)):
            n += 1
            spec = DECODE(open(os.path.join(corpus, fn), "rb").read())
            try:
                nt = ORACLE(spec)
            except Exception:  # noqa: BLE001
                nt = False
            if nt:
                h = harness.spec_hash(spec)
                if h not in hashes:
                    hashes.add(h)
                    if len(samples) < 3:
                        samples.append(spec)
        json.dump({"nt_hashes": sorted(hashes), "samples": samples, "corpus": n}, open(dec, "w"), default=repr)
        sys.exit(0)
    if os.environ.get("OQ_FUZZ_SEEDED") == "1":
        seed_corpus(corpus)
    atheris.Setup(sys.argv, TestOneInput)
    atheris.Fuzz()
