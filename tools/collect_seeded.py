#!/usr/bin/env python3
"""Copies confirmed seeded changes into /verif/seeded/<id>/ (patch.diff, demo.py, meta.json).
usage: collect_seeded.py <round label> <seed root> <results dir> [--missed-first Cxx?,...]"""
import json, os, shutil, sys
label, root, resdir = sys.argv[1], sys.argv[2], sys.argv[3]
missed_first = set(sys.argv[4].split(",")) if len(sys.argv) > 4 and sys.argv[4] else set()
out_root = os.path.join(os.path.dirname(os.path.dirname(os.path.abspath(__file__))), "seeded")
n = 0
for pid in sorted(os.listdir(root)):
    so = os.path.join(root, pid, "seed_out")
    if not os.path.isdir(so):
        continue
    try:
        notes = json.load(open(os.path.join(so, "notes.json")))
    except Exception:
        notes = {}
    for v in ("A", "B"):
        patch, demo = os.path.join(so, f"patch{v}.diff"), os.path.join(so, f"demo{v}.py")
        res = os.path.join(resdir, f"{pid}{v}.json")
        if not (os.path.exists(patch) and os.path.exists(demo) and os.path.exists(res)):
            continue
        try:
            r = json.load(open(res))
        except Exception:
            continue
        confirmed = r.get("demo_clean_exit") == 0 and r.get("demo_patched_exit") not in (0, None) and r.get("tests_ok") is True
        if not confirmed:
            print("NOT CONFIRMED", pid, v, {k: r.get(k) for k in ("demo_clean_exit", "demo_patched_exit", "tests_ok", "tests_newly_failing")})
            continue
        sid = f"{pid}-{label}{v}"
        d = os.path.join(out_root, sid)
        os.makedirs(d, exist_ok=True)
        shutil.copy(patch, os.path.join(d, "patch.diff"))
        shutil.copy(demo, os.path.join(d, "demo.py"))
        nt = notes.get(v, {}) if isinstance(notes.get(v), dict) else {}
        meta = {
            "id": sid, "property": pid, "summary": nt.get("summary", ""), "needs": nt.get("needs", ""), "files": nt.get("files", []),
            "source": "independent sub-agent given only the property text and a scratch worktree",
            "confirmed": {"demo_exit_unchanged_tree": r.get("demo_clean_exit"), "demo_exit_with_patch": r.get("demo_patched_exit"),
                          "all_baseline_stable_tests_pass_with_patch": r.get("tests_ok"),
                          "how": "tools/try_seeded.py: demo run with PYTHONPATH=/repo/src and with a patched scratch worktree; serial pytest run in the patched worktree compared with BASELINE.stable_pass"},
            "check_result": {"detected": r.get("detected"), "mode": r.get("mode", "repo"), "checks": r.get("checks")},
            "missed_before_strengthening": f"{pid}{v}" in missed_first,
        }
        json.dump(meta, open(os.path.join(d, "meta.json"), "w"), indent=1)
        n += 1
print("collected", n)
