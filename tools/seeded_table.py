#!/usr/bin/env python3
"""Regenerates the table of seeded changes in DESIGN.md (between the SEEDED-TABLE markers) from seeded/*/meta.json."""
import glob
import json
import os
import re

VERIF = os.path.dirname(os.path.dirname(os.path.abspath(__file__)))


def short(meta):
    txt = meta.get("summary") or ""
    if not txt:
        notes = meta.get("notes", "")
        for line in notes.splitlines():
            line = line.strip().lstrip("#").strip()
            if line:
                txt = line
                break
    needs = meta.get("needs") or ""
    notes = meta.get("notes", "")
    if not needs:
        m = re.search(r"(?im)^#+[^\n]*(?:need|manifest|trigger)[^\n]*\n+(.+?)(?:\n\s*\n|\n#|\Z)", notes, re.S)
        if m:
            needs = " ".join(m.group(1).split())
    if not needs:
        m = re.search(r"(?is)need(?:ed|s)[^\n:]*:\**\s*(.+?)(?:\n\s*\n|\n\*|\n-|\Z)", notes)
        if m:
            needs = " ".join(m.group(1).split())
    txt = " ".join(txt.split())
    return txt[:110].replace("|", "/"), needs[:170].replace("|", "/")


def main():
    rows = []
    n = det = missed_first = 0
    for f in sorted(glob.glob(os.path.join(VERIF, "seeded", "*", "meta.json"))):
        m = json.load(open(f))
        cur = m.get("current") or {}
        orig = m.get("check_result", {})
        what, needs = short(m)
        first = bool(m.get("missed_before_strengthening"))
        d = cur.get("detected", orig.get("detected"))
        subs = cur.get("subchecks") or sorted({s.replace("subcheck=", "") for c in (orig.get("checks") or {}).values() for s in c.get("subchecks", [])})
        n += 1
        det += bool(d)
        missed_first += first
        rows.append(f"| {m['id']} | {what} | {needs} | {'**missed at first**, ' if first else ''}{'caught' if d else '**NOT caught**'} | {', '.join(subs)} |")
    head = (f"{n} confirmed seeded changes; {det} caught by the current quick tier (seed 1); {missed_first} of them were missed when first "
            "tried and led to the strengthening named in the last column.\n\n"
            "| id | change | needs, to manifest | quick tier | sub-check(s) reporting it |\n|---|---|---|---|---|\n")
    table = head + "\n".join(rows) + "\n"
    p = os.path.join(VERIF, "DESIGN.md")
    s = open(p).read()
    b, e = "<!-- SEEDED-TABLE-BEGIN -->", "<!-- SEEDED-TABLE-END -->"
    if b in s:
        s = s[: s.index(b) + len(b)] + "\n" + table + s[s.index(e):]
        open(p, "w").write(s)
        print("DESIGN.md updated:", n, "rows,", det, "caught")
    else:
        print(table)


if __name__ == "__main__":
    main()
