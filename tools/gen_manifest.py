#!/venv/bin/python
"""Regenerates MANIFEST.json from the property modules present under props/."""
import json, os, sys, importlib
HERE = os.path.dirname(os.path.abspath(__file__)); ROOT = os.path.dirname(HERE)
sys.path.insert(0, ROOT); sys.path.insert(0, "/repo/src")
PY = "/venv/bin/python"
props = [json.loads(l) for l in open(os.path.join(ROOT, "properties.jsonl"))]
checks, na = [], []
for p in props:
    pid = p["id"]
    if not os.path.exists(os.path.join(ROOT, "props", pid + ".py")):
        na.append({"property_id": pid, "reason": "check not built yet (generated-input check planned, see DESIGN.md section 4)"})
        continue
    mod = importlib.import_module("props." + pid)
    checks.append({
        "property_id": pid,
        "quick_cmd": f"{PY} check.py {pid} --tier quick",
        "thorough_cmd": f"{PY} check.py {pid} --tier thorough",
        "evidence_file": f"evidence/{pid}.json",
        "replay_cmd_template": f"{PY} check.py {pid} --replay {{path}}",
        "engine": "hypothesis-spec-runner",
        "level_claimed": {
            "category": "exploration",
            "text": getattr(mod, "LEVEL_TEXT", "Seeded generated-input search (Hypothesis strategies producing JSON specs, plus exhaustive enumeration of the small finite sub-domains) against an independent numpy/pure-Python oracle; evidence of absence of violations on the explored cases, not a proof."),
            "design_ref": "DESIGN.md section 4, " + pid,
        },
        "level_note": "; ".join(mod.ASSUMPTIONS) or "none",
        "technique": getattr(mod, "TECHNIQUE", "property-based testing (Hypothesis) against a reference-model oracle"),
    })
manifest = {
    "version": 1,
    "setup_cmd": f"{PY} tools/setup.py",
    "hooks": {
        "guard": "ORQUESTRA_QUANTUM_VERIF",
        "enable": "no source hooks are needed: every property is observable through the public API; harness-side subclasses replace instrumentation",
        "baseline_off_cmd": "cd /repo && /venv/bin/python -m pytest -q -p no:cacheprovider --timeout=900 --continue-on-collection-errors",
        "source_commits": [],
        "add_only": True,
    },
    "engines": [{
        "name": "hypothesis-spec-runner", "path": "vlib/harness.py",
        "serves_properties": [c["property_id"] for c in checks],
        "kind_free_text": "Hypothesis 6.168 strategies generate JSON-able specs; sub-checks run in seeded worker processes (VERIF_SEED), shrunk failing spec = replay file; exhaustive enumeration for small finite domains; forked evaluation with time-outs for sympy-heavy cases",
    }],
    "checks": checks,
    "not_applicable": na,
    "notes": "Exit 0 held / 1 VIOLATION / 2 harness error. known_findings.json lists open findings (printed as KNOWN-FINDING) and fixed ones. All checks import the library from /repo/src (asserted at start-up).",
}
json.dump(manifest, open(os.path.join(ROOT, "MANIFEST.json"), "w"), indent=1)
print("checks:", [c["property_id"] for c in checks], "n/a:", len(na))
