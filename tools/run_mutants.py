#!/venv/bin/python
"""Sensitivity protocol: apply each one-line mutant of tools/mutants.py to a scratch copy of
/repo/src, run the quick tier of the matching check against it (OQ_VERIF_ROOT), report
DETECTED / SURVIVED.  usage: run_mutants.py [--jobs N] [--cores K] [--prop Cxx] [id-prefix ...]
Scratch copies live under /tmp/oq-mut-* and are removed immediately."""
import argparse, os, shutil, subprocess, sys, time, json
from concurrent.futures import ThreadPoolExecutor
HERE = os.path.dirname(os.path.abspath(__file__))
sys.path.insert(0, HERE)
from mutants import M

def run_one(m, prop, cores, seed):
    id_, _protos, file, old, new = m
    root = f"/tmp/oq-mut-{id_}-{prop}"
    shutil.rmtree(root, ignore_errors=True)
    os.makedirs(root)
    subprocess.run(["rsync", "-a", "--exclude", "__pycache__", "/repo/src", root + "/"], check=True)
    p = os.path.join(root, file)
    s = open(p).read()
    if s.count(old) != 1:
        shutil.rmtree(root, ignore_errors=True)
        return (id_, prop, "NOT-APPLIED(%d)" % s.count(old), 0.0, "")
    open(p, "w").write(s.replace(old, new))
    env = dict(os.environ, OQ_VERIF_ROOT=root, VERIF_CORES=str(cores), VERIF_SEED=str(seed), VERIF_NO_EVIDENCE="1")
    t0 = time.time()
    r = subprocess.run(["/venv/bin/python", os.path.join(HERE, "..", "check.py"), prop, "--tier", "quick"],
                       env=env, capture_output=True, text=True)
    dt = time.time() - t0
    shutil.rmtree(root, ignore_errors=True)
    viol = [l for l in r.stdout.splitlines() if l.startswith("VIOLATION")]
    sub = [l.strip() for l in r.stdout.splitlines() if l.strip().startswith("subcheck=")]
    status = "DETECTED" if r.returncode == 1 and viol else ("HARNESS-ERROR" if r.returncode == 2 else "SURVIVED")
    detail = "; ".join(sub)[:300] if sub else r.stderr[-300:]
    # replay files written for mutants are scratch
    for l in viol:
        path = l.split("replay=")[-1].strip()
        if os.path.exists(path):
            os.remove(path)
    return (id_, prop, status, dt, detail)

def main():
    ap = argparse.ArgumentParser()
    ap.add_argument("--jobs", type=int, default=4)
    ap.add_argument("--cores", type=int, default=4)
    ap.add_argument("--prop", default=None, help="run selected mutants against this property's check")
    ap.add_argument("--seed", type=int, default=1)
    ap.add_argument("ids", nargs="*")
    a = ap.parse_args()
    sel = [m for m in M if not a.ids or any(m[0].startswith(i) for i in a.ids)]
    jobs = [(m, a.prop or m[0][:3]) for m in sel]
    out = []
    with ThreadPoolExecutor(a.jobs) as ex:
        for res in ex.map(lambda j: run_one(j[0], j[1], a.cores, a.seed), jobs):
            print("%-6s %-4s %-14s %6.1fs  %s" % res, flush=True)
            out.append(res)
    print("survivors:", [(r[0], r[2]) for r in out if r[2] != "DETECTED"])

if __name__ == "__main__":
    main()
