#!/usr/bin/env python3
"""Runs the repository's baseline test command (serially) and checks that every test listed as
stable_pass in /root/.vp/BASELINE.json passes. usage: check_baseline.py [junit.xml]"""
import json, subprocess, sys, xml.etree.ElementTree as ET, os, tempfile
xml = sys.argv[1] if len(sys.argv) > 1 else None
if xml is None:
    xml = os.path.join(tempfile.mkdtemp(), "junit.xml")
    subprocess.run("cd /repo && /venv/bin/python -m pytest -q -p no:cacheprovider --timeout=900 "
                   "--continue-on-collection-errors --junitxml=%s >/dev/null 2>&1" % xml, shell=True)
base = json.load(open("/root/.vp/BASELINE.json"))
passed = set()
for tc in ET.parse(xml).getroot().iter("testcase"):
    if not any(ch.tag in ("failure", "error", "skipped") for ch in tc):
        passed.add(tc.get("classname") + "::" + tc.get("name"))
missing = [t for t in base["stable_pass"] if t not in passed]
print("stable_pass:", len(base["stable_pass"]), "passing now:", len(base["stable_pass"]) - len(missing))
for t in missing[:20]:
    print("  NOT PASSING:", t)
sys.exit(1 if missing else 0)
