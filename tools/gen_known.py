#!/usr/bin/env python3
"""Writes known_findings.json (committed; never written at check run time)."""
import json, os
R = []
def fixed(i, prop, commit, what):
    R.append({"id": i, "property": prop, "status": "fixed", "commit": commit, "what": what,
              "line": f"fixed: property={prop} {commit} {what}"})
def open_(i, prop, sub, cls, sig, example, what):
    R.append({"id": i, "property": prop, "status": "open", "subcheck": sub, "class": cls,
              "signature": sig, "example": example, "what": what})
fixed("F1", "C02", "64f7472", "H.matrix raised ValueError under numpy 2 (h_matrix built from numpy scalars)")
fixed("F2", "C17", "2f0e49d", "MeasurementOutcomeDistribution.subdistribution popped every key of the source distribution (also C20)")
fixed("F3", "C11", "6dfe141", "PauliTerm(str(PauliTerm('I0', 2.0))) / PauliSum(str(PauliSum())) raised: printed constant 'I' was not parseable")
fixed("F4", "C09", "e5a31b8", "get_sparse_operator(PauliSum(), n) raised ValueError instead of returning the zero matrix")
fixed("F5", "C11", "ce3f076", "load_nmeas_estimate raised KeyError for files saved with frame_meas=None")
fixed("F6", "C05", "a1b4aee", "custom gate instance with formal names like gamma/beta/S reloaded its parameters as sympy functions/singletons")
fixed("F7", "C05", "9a254a8", "to_dict omitted the definition of a custom gate under a wrapper, so the circuit could not be loaded")
fixed("F8", "C06", "6c1c8e7", "custom gate matrix used sequential subs: cd(y, x).matrix wrong when actual parameters mention formal symbols")
fixed("F9", "C14", "b0ca93e", "MeasurementTrackingBackend.run_batch_and_measure bumped its counters before a rejected batch")
fixed("F10", "C16", "4127e55", "time_evolution_for_term accepted coefficients with negative imaginary part and dropped it")
fixed("F11", "C16", "d4d2b0e", "time_evolution_derivatives with n_steps > 1 built the repeated step with the full time")
fixed("F12", "C18", "a5ae828", "decompose_orquestra_circuit dropped n_qubits (idle top qubits lost)")
fixed("F13", "C01", "bed759e", "Circuit.to_unitary raised for circuits mixing symbolic and numeric gates under numpy 2 (also C06)")
fixed("F14", "C05", "97d3e80", "Python float parameters reloaded 1 ulp off for ~2% of doubles")
fixed("F15", "C11", "e339167", "PauliSum(str(s)) raised for real coefficients >= 1e16: the parser split the printed text on the + of an exponent (1e+16)")
fixed("F16", "C12", "3ce69e4", "history init(symbolic) -> bind(all symbols) -> rejected assignment: the bound vector is an (N,1) array, the saved old value was a view, so the rejected value stayed in the object")
fixed("F17", "C17", "96e00d2", "subdistribution of a distribution with outcome values >= 10 raised RuntimeError: projected keys were joined without a separator and re-read digit by digit")
fixed("F18", "C17", "c5a3b0d", "save/load of single-subsystem outcomes >= 10: {(12,): .5, (3,): .5} was re-read as keys of unequal length (RuntimeError); formerly recorded as open finding K5")
fixed("F20", "C13", "31b74cc", "expand_sample_sizes([c], [2**53 + 1], 2**52) returned copies summing to 2**52 + 1: the number of copies was computed with float division (ceil(n / max)), inexact above 2**53")
fixed("F21", "C05", "a430749", "Python complex gate parameters: about 2% of doubles reloaded one ulp off (text parsed at sympy precision, as F14), and a complex with zero imaginary part (-3.5+0j) made circuit_from_dict raise ValueError in the float short cut introduced by the F14 repair")
open_("K1", "C18", "probe_K1", "controlled U3 (any number of controls) with (phi+lambda) mod 4pi != 0",
      "decomposed circuit == original * (phase exp(-i(phi+lambda)/2) on the all-controls-1 block), up to global phase",
      {"gate": "U3(0.3,0.5,0.9).controlled(1)(0,1)"},
      "controlled-U3 decomposition drops the relative phase exp(i(phi+lambda)/2); repair would add a phase gate and break test_CU3_decomposition_comprises_only_controlled_rotations")
open_("K2", "C07", "probe_K2", "dagger applied (directly, or above controls / an exponential) to a non-integer power whose operand has an eigenvalue on the negative real axis (e.g. the flagged self-adjoint gates X,Y,Z,H,CNOT,CZ,SWAP,GPi, or a user-defined gate with matrix X)",
      "M(dagger) is exactly what pushing the adjoint through the power gives - (adjoint of w)**e instead of the adjoint of w**e; for a self-adjoint operand the dagger has the matrix of the gate itself",
      {"gate": "X.power(0.5).dagger"},
      "X.power(0.5).dagger is X.power(0.5) again, its matrix is not the adjoint; tests pin power.dagger == gate.dagger.power(e) and gate.dagger is gate")
open_("K3", "C05", "probe_K3", "one gate mentioning both symbol b and indexed symbol b[i]",
      "circuit_from_dict raises TypeError", {"gate": "U3(b, b[3], 0.5)"},
      "a gate mentioning symbols x and x[3] cannot be deserialised (TypeError in the symbol table); repair = rewrite of the symbol map")
open_("K4", "C05", "probe_K4", "parameter mentioning a symbol named Integer (with an integer literal) or Float (with a float literal)",
      "circuit_from_dict raises TypeError", {"gate": "RX(2*Integer)"},
      "symbols named Integer/Float shadow the constructors sympy's parser emits for literals; load raises TypeError")
json.dump(R, open(os.path.join(os.path.dirname(os.path.dirname(os.path.abspath(__file__))), "known_findings.json"), "w"), indent=1)
print(len(R), "records")
