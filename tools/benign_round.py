#!/usr/bin/env python3
"""Evaluate a round of behaviour-preserving changes (false-alarm test).

layout: <root>/<Cxx>/<V>/{patch.diff,notes.md}
  benign_round.py eval <root> [Cxx ...] [--redo] [--jobs 2]     -> <root>/results/<Cxx><V>.json
  benign_round.py table <root>
  benign_round.py collect <label> <root>                         -> /verif/benign/<Cxx>-<label><V>/{patch.diff,meta.json}
"""
import concurrent.futures as cf
import glob
import json
import os
import shutil
import subprocess
import sys

HERE = os.path.dirname(os.path.abspath(__file__))
VERIF = os.path.dirname(HERE)


def variants(root, props=None):
    for d in sorted(glob.glob(os.path.join(root, "C??", "?"))):
        pid, v = d.split(os.sep)[-2:]
        if props and pid not in props:
            continue
        if os.path.exists(os.path.join(d, "patch.diff")) and os.path.getsize(os.path.join(d, "patch.diff")) > 0:
            yield pid, v, d


def run_one(root, pid, v, d, cores):
    res = os.path.join(root, "results", f"{pid}{v}.json")
    r = subprocess.run([sys.executable, os.path.join(HERE, "try_benign.py"), os.path.join(d, "patch.diff"), pid, "--related", "--cores", cores],
                       capture_output=True, text=True)
    try:
        out = json.loads((r.stdout.strip().splitlines() or ["{}"])[-1])
    except Exception:
        out = {"error": (r.stdout + r.stderr)[-600:]}
    json.dump(out, open(res, "w"), indent=1)
    return pid, v, out


def line(name, out):
    return "%s tests=%s quiet=%s %s %s" % (name, out.get("tests_ok"), out.get("quiet"),
                                           {k: (c["exit"], (c["first"] or [""])[0][:140]) for k, c in (out.get("checks") or {}).items() if c["exit"] != 0} or "",
                                           out.get("error", "") or out.get("apply_error", ""))


def main():
    cmd = sys.argv[1]
    if cmd == "eval":
        args = sys.argv[2:]
        redo = "--redo" in args
        jobs = int(args[args.index("--jobs") + 1]) if "--jobs" in args else 2
        skip = {args.index("--jobs"), args.index("--jobs") + 1} if "--jobs" in args else set()
        pos = [a for i, a in enumerate(args) if i not in skip and not a.startswith("--")]
        root, props = pos[0], set(pos[1:])
        os.makedirs(os.path.join(root, "results"), exist_ok=True)
        todo = [(p, v, d) for p, v, d in variants(root, props) if redo or not os.path.exists(os.path.join(root, "results", f"{p}{v}.json"))]
        with cf.ThreadPoolExecutor(jobs) as ex:
            for f in cf.as_completed([ex.submit(run_one, root, p, v, d, str(max(4, 16 // jobs))) for p, v, d in todo]):
                p, v, out = f.result()
                print(line(p + v, out), flush=True)
    elif cmd == "table":
        for f in sorted(glob.glob(os.path.join(sys.argv[2], "results", "*.json"))):
            print(line(os.path.basename(f)[:-5], json.load(open(f))))
    elif cmd == "collect":
        label, root = sys.argv[2], sys.argv[3]
        n = 0
        for pid, v, d in variants(root):
            res = os.path.join(root, "results", f"{pid}{v}.json")
            if not os.path.exists(res):
                continue
            r = json.load(open(res))
            if r.get("tests_ok") is not True:
                print("NOT BENIGN (tests fail)", pid, v)
                continue
            sid = f"{pid}-{label}{v}"
            out = os.path.join(VERIF, "benign", sid)
            os.makedirs(out, exist_ok=True)
            shutil.copy(os.path.join(d, "patch.diff"), os.path.join(out, "patch.diff"))
            notes = open(os.path.join(d, "notes.md")).read() if os.path.exists(os.path.join(d, "notes.md")) else ""
            meta = {"id": sid, "property": pid, "kind": "behaviour-preserving change (false-alarm test)", "notes": notes,
                    "files": sorted({l[6:].strip() for l in open(os.path.join(d, "patch.diff")) if l.startswith("+++ b/")}),
                    "baseline_tests_pass_with_patch": True,
                    "first_result": {"quiet": r.get("quiet"), "checks": r.get("checks")}}
            json.dump(meta, open(os.path.join(out, "meta.json"), "w"), indent=1)
            n += 1
        print("collected", n)


if __name__ == "__main__":
    main()
