"""Specs (plain JSON-able data) for expressions, gates and circuits; Hypothesis strategies
that produce them; builders that turn a spec into library objects."""
import math

import numpy as np
import sympy
from hypothesis import strategies as st

from . import ref

# ---------------------------------------------------------------- expressions
# spec: number | ["sym", name] | ["idx", base, i] | ["int", k] | ["rat", p, q] | ["flt", x]
#       | ["I"] | ["+", a, b] | ["-", a, b] | ["*", a, b] | ["/", a, b] | ["**", a, b]
#       | ["neg", a] | ["sqrt", a] | ["fn", name, a]

FUNCS = {"sin": sympy.sin, "cos": sympy.cos, "exp": sympy.exp, "tan": sympy.tan}


def build_expr(e):
    """Python numbers stay Python numbers; everything else becomes a sympy expression."""
    if isinstance(e, (int, float)) and not isinstance(e, bool):
        return e
    tag = e[0]
    if tag == "sym":
        return sympy.Symbol(e[1])
    if tag == "idx":
        return sympy.Symbol("%s[%d]" % (e[1], e[2]))
    if tag == "symr":  # a different symbol that prints the same: declared real
        return sympy.Symbol(e[1], real=True)
    if tag == "int":
        return sympy.Integer(e[1])
    if tag == "rat":
        return sympy.Rational(e[1], e[2])
    if tag == "flt":
        return sympy.Float(e[1])
    if tag == "I":
        return sympy.I
    if tag == "cplx":
        return complex(e[1], e[2])
    if tag == "neg":
        return -_sx(e[1])
    if tag == "sqrt":
        return sympy.sqrt(_sx(e[1]))
    if tag == "fn":
        return FUNCS[e[1]](_sx(e[2]))
    a, b = _sx(e[1]), _sx(e[2])
    if tag == "+":
        return a + b
    if tag == "-":
        return a - b
    if tag == "*":
        return a * b
    if tag == "/":
        return a / b
    if tag == "**":
        return a ** b
    raise ValueError(e)


def _sx(e):
    return sympy.sympify(build_expr(e))


def expr_symbols(e, acc=None):
    """Symbol names (as the library would print them) mentioned by an expression spec."""
    acc = [] if acc is None else acc
    if isinstance(e, list):
        if e[0] in ("sym", "symr"):
            if e[1] not in acc:
                acc.append(e[1])
        elif e[0] == "idx":
            nm = "%s[%d]" % (e[1], e[2])
            if nm not in acc:
                acc.append(nm)
        else:
            for x in e[1:]:
                expr_symbols(x, acc)
    return acc


# ---------------------------------------------------------------- gate specs
# {"g": name, "p": [param specs], "mods": [["dag"] | ["c", k] | ["pow", p] | ["exp"]]}
# custom numeric unitary: {"g": "custom", "k": arity, "mseed": int, "p": [], "mods": [...]}
# custom symbolic: {"g": "customsym", "t": template id, "f": [formal names], "p": [...]}

TABLE = {k: (v[0], v[1]) for k, v in ref.GATES.items()}
NAMES = list(TABLE)
EXP_UNFRIENDLY = {"T", "PHASE", "RZ", "CPHASE", "U3"}
EXACT_ENTRY = {"X", "Y", "Z", "H", "I", "S", "SX", "CNOT", "CZ", "SWAP"}


def random_unitary(k, mseed):
    rs = np.random.RandomState(mseed % (2 ** 32))
    d = 2 ** k
    a = rs.normal(size=(d, d)) + 1j * rs.normal(size=(d, d))
    q, r = np.linalg.qr(a)
    ph = np.diag(r) / np.abs(np.diag(r))
    return q * ph


def _sym_templates():
    a, b, c = sympy.symbols("_fa _fb _fc")
    I = sympy.I
    t1 = sympy.Matrix([[sympy.cos(a), -sympy.sin(a)], [sympy.sin(a), sympy.cos(a)]])
    t2 = sympy.Matrix([[sympy.exp(I * a), 0], [0, sympy.exp(I * b)]])
    t3 = sympy.Matrix(
        [
            [sympy.cos(a / 2), -sympy.exp(I * b) * sympy.sin(a / 2)],
            [sympy.exp(-I * b) * sympy.sin(a / 2), sympy.cos(a / 2)],
        ]
    )
    t4 = sympy.diag(1, sympy.exp(I * a), sympy.exp(-I * a), 1)
    t5 = sympy.kronecker_product(t1, t2.subs({a: b, b: c}, simultaneous=True))
    t6 = sympy.Matrix([[0, a * 2], [b + 3, 1]])  # the non-unitary example from the docs
    t7 = sympy.Matrix([[sympy.exp(I * (a - b)), 0], [0, sympy.exp(I * (a + 2 * b))]])
    return {
        "rot": (t1, [a]),
        "ph2": (t2, [a, b]),
        "u2": (t3, [a, b]),
        "d4": (t4, [a]),
        "k3": (t5, [a, b, c]),
        "doc": (t6, [b, a]),  # ordering differs from appearance, like in the docs
        "mix": (t7, [a, b]),
        "dz": (sympy.Matrix([[1, 0], [0, a]]), [a]),  # unitary exactly when |a| = 1: a parameter that is not an angle
    }


SYM_TEMPLATES = _sym_templates()
SYM_TEMPLATE_ARITY = {k: (int(math.log2(v[0].shape[0])), len(v[1])) for k, v in SYM_TEMPLATES.items()}
UNITARY_TEMPLATES = ["rot", "ph2", "u2", "d4", "k3", "mix"]

_DEF_CACHE = {}


def _exact_templates():
    I = sympy.I
    h = sympy.Rational(1, 2)
    return {
        "cx": sympy.Matrix([[0, 1], [1, 0]]),                       # unflagged Hermitian, eigenvalue -1
        "cz": sympy.Matrix([[1, 0], [0, -1]]),
        "cs": sympy.Matrix([[1, 0], [0, I]]),
        "csx": sympy.Matrix([[h + h * I, h - h * I], [h - h * I, h + h * I]]),
        "ciswap": sympy.Matrix([[1, 0, 0, 0], [0, 0, I, 0], [0, I, 0, 0], [0, 0, 0, 1]]),
        "cy": sympy.Matrix([[0, -I], [I, 0]]),
    }


EXACT_TEMPLATES = _exact_templates()


def custom_definition(spec):
    """CustomGateDefinition for a custom / customsym gate spec (cached: same spec -> equal def)."""
    from orquestra.quantum.circuits import CustomGateDefinition

    if spec["g"] == "cexact":
        key = ("cexact", spec["t"])
        if key not in _DEF_CACHE:
            _DEF_CACHE[key] = CustomGateDefinition(
                gate_name="ce_" + spec["t"], matrix=EXACT_TEMPLATES[spec["t"]], params_ordering=())
        return _DEF_CACHE[key]
    if spec["g"] == "custom":
        key = ("custom", spec["k"], spec["mseed"], spec.get("name"))
        if key not in _DEF_CACHE:
            m = random_unitary(spec["k"], spec["mseed"])
            _DEF_CACHE[key] = CustomGateDefinition(
                gate_name=spec.get("name") or "cg%d_%d" % (spec["k"], spec["mseed"]),
                matrix=sympy.Matrix(m.tolist()),
                params_ordering=(),
            )
        return _DEF_CACHE[key]
    key = ("customsym", spec["t"], tuple(spec["f"]), spec.get("name"))
    if key not in _DEF_CACHE:
        mat, formals = SYM_TEMPLATES[spec["t"]]
        new = [sympy.Symbol(n) for n in spec["f"]]
        m = mat.subs(dict(zip(formals, new)), simultaneous=True)
        _DEF_CACHE[key] = CustomGateDefinition(
            gate_name=spec.get("name") or ("cs_%s_%s" % (spec["t"], "_".join(spec["f"]))),
            matrix=m,
            params_ordering=tuple(new),
        )
    return _DEF_CACHE[key]


def build_base(spec):
    from orquestra.quantum.circuits import builtin_gate_by_name

    if spec["g"] in ("custom", "customsym", "cexact"):
        d = custom_definition(spec)
        return d(*[build_expr(p) for p in spec.get("p", [])])
    refg = builtin_gate_by_name(spec["g"])
    if TABLE[spec["g"]][1]:
        return refg(*[build_expr(p) for p in spec["p"]])
    return refg


def apply_mod(g, m):
    if m[0] == "dag":
        return g.dagger
    if m[0] == "c":
        return g.controlled(m[1])
    if m[0] == "pow":
        return g.power(m[1])
    if m[0] == "exp":
        return g.exp
    raise ValueError(m)


def apply_mod_raw(g, m):
    """The same wrapper, written with the public wrapper classes instead of the gate's methods (the methods
    re-associate some nestings, e.g. controlled(1).controlled(1) -> controlled(2); the constructors do not)."""
    from orquestra.quantum.circuits import _gates as G

    if m[0] == "dag":
        return G.Dagger(g)
    if m[0] == "c":
        return G.ControlledGate(g, m[1])
    if m[0] == "pow":
        return G.Power(g, m[1])
    if m[0] == "exp":
        return G.Exponential(g)
    raise ValueError(m)


def build_gate(spec):
    g = build_base(spec)
    for m in spec.get("mods", []):
        g = apply_mod_raw(g, m) if spec.get("raw") else apply_mod(g, m)
    return g


def base_arity(spec):
    if spec["g"] == "custom":
        return spec["k"]
    if spec["g"] == "cexact":
        return int(math.log2(EXACT_TEMPLATES[spec["t"]].shape[0]))
    if spec["g"] == "customsym":
        return SYM_TEMPLATE_ARITY[spec["t"]][0]
    return TABLE[spec["g"]][0]


def gate_arity(spec):
    return base_arity(spec) + sum(m[1] for m in spec.get("mods", []) if m[0] == "c")


def ref_base_matrix(spec):
    """Independent numeric matrix of the base gate of a numeric gate spec."""
    if spec["g"] == "custom":
        return random_unitary(spec["k"], spec["mseed"])
    if spec["g"] == "cexact":
        return ref.npm(EXACT_TEMPLATES[spec["t"]])
    if spec["g"] == "customsym":
        mat, formals = SYM_TEMPLATES[spec["t"]]
        vals = dict(zip(formals, [complex(p) if isinstance(p, complex) else p for p in spec["p"]]))
        return ref.npm(mat.subs(vals, simultaneous=True).evalf())
    return ref.closed(spec["g"], spec["p"])


def ref_gate_matrix(spec):
    return ref.apply_mods(ref_base_matrix(spec), spec.get("mods", []))


def build_circuit(spec):
    from orquestra.quantum.circuits import Circuit

    ops = [build_gate(o)(*o["q"]) for o in spec["ops"]]
    return Circuit(ops, spec.get("width"))


def ref_circuit_matrix(spec, n=None):
    """Ordered product of embedded reference matrices on n qubits."""
    n = n or circuit_width(spec)
    U = np.eye(2 ** n, dtype=complex)
    for o in spec["ops"]:
        U = ref.embed(ref_gate_matrix(o), o["q"], n) @ U
    return U


def circuit_width(spec):
    used = max([max(o["q"]) + 1 for o in spec["ops"]] or [0])
    return max(used, spec.get("width") or 0)


# ---------------------------------------------------------------- strategies

PI = math.pi
SPECIAL_ANGLES = [0.0, PI / 4, PI / 2, PI, -PI / 2, 2 * PI, -PI, 3 * PI / 4, 1.0, -1.0]


def angles():
    return st.one_of(
        st.floats(-4 * PI, 4 * PI, allow_nan=False, allow_infinity=False),
        st.sampled_from(SPECIAL_ANGLES),
    )


@st.composite
def gate_specs(draw, maxq=4, mods=("dag", "c", "pow"), max_mods=2, custom=True,
               names=None, int_powers=(2, 3, -1, -2)):
    cands = [n for n in (names or NAMES) if TABLE[n][0] <= maxq]
    if custom and draw(st.integers(0, 5)) == 0:
        exact = [t for t in sorted(EXACT_TEMPLATES) if EXACT_TEMPLATES[t].shape[0] <= 2 ** maxq]
        if draw(st.integers(0, 2)) == 0 and exact:
            # user-defined gates with exact entries: Hermitian ones, complex-symmetric non-Hermitian ones (diag(1, i), sqrt X, iSWAP)
            spec = {"g": "cexact", "t": draw(st.sampled_from(exact)), "p": []}
        else:
            k = draw(st.integers(1, min(3, maxq)))
            spec = {"g": "custom", "k": k, "mseed": draw(st.integers(0, 10 ** 6)), "p": []}
    else:
        nm = draw(st.sampled_from(cands))
        spec = {"g": nm, "p": [draw(angles()) for _ in range(TABLE[nm][1])]}
    k = base_arity(spec)
    ms = []
    for _ in range(draw(st.integers(0, max_mods))):
        m = draw(st.sampled_from(list(mods)))
        if m == "c":
            if k < maxq:
                c = draw(st.integers(1, maxq - k))
                ms.append(["c", c])
                k += c
        elif m == "pow":
            # sympy cost guard (measured): inverses of 8x8 float matrices take seconds and
            # stacked powers of U3 (unevaluated exp entries) may not terminate.
            n_pow = sum(1 for x in ms if x[0] == "pow")
            heavy = spec["g"] == "U3" or (spec["g"] == "custom" and spec["k"] >= 3)
            if n_pow >= 2 or (heavy and n_pow >= 1):
                continue
            allowed = [p for p in int_powers if p > 0 or not (
                heavy or any(x[0] == "pow" and x[1] < 0 for x in ms))]
            if allowed:
                ms.append(["pow", draw(st.sampled_from(allowed))])
        elif m == "dag":
            ms.append(["dag"])
    spec["mods"] = ms
    return spec


@st.composite
def circuit_specs(draw, max_n=5, max_ops=8, min_ops=1, maxq=4, **gate_kw):
    n = draw(st.integers(1, max_n))
    ops = []
    for _ in range(draw(st.integers(min_ops, max_ops))):
        g = draw(gate_specs(maxq=min(n, maxq), **gate_kw))
        perm = draw(st.permutations(list(range(n))))
        g["q"] = list(perm[: gate_arity(g)])
        ops.append(g)
    width = draw(st.sampled_from([None, None, n, n + 1]))
    return {"n": n, "width": width, "ops": ops}


def circuit_classes(spec):
    out = set()
    n = circuit_width(spec)
    used = set()
    for o in spec["ops"]:
        q = o["q"]
        used |= set(q)
        if len(q) >= 2 and q != sorted(q):
            out.add("permuted")
        if len(q) >= 2 and any(abs(a - b) != 1 for a, b in zip(q, q[1:])):
            out.add("non_adjacent")
        if len(q) == 3:
            out.add("arity3")
        if len(q) >= 4:
            out.add("arity4")
        if o.get("mods"):
            out.add("wrapped")
        if o["g"] in ("custom", "customsym", "cexact"):
            out.add("custom")
        if o["g"] == "cexact":
            out.add("custom_exact_entries")
    if len(used) < n:
        out.add("idle")
    return out


def state_from_seed(n, sseed):
    """Normalised complex state (Python-reproducible) or a basis vector for sseed < 0."""
    if sseed < 0:
        v = np.zeros(2 ** n, dtype=complex)
        v[(-sseed - 1) % (2 ** n)] = 1
        return v
    rs = np.random.RandomState(sseed % (2 ** 32))
    v = rs.normal(size=2 ** n) + 1j * rs.normal(size=2 ** n)
    return v / np.linalg.norm(v)


# ---------------------------------------------------------------- symbolic parameters

PLAIN_NAMES = ["a", "b", "theta", "phi_1", "w12", "alpha_10", "x", "y"]
SHADOW_NAMES = ["S", "I", "E", "N", "O", "Q", "pi", "beta", "gamma", "zeta", "lamda",
                "re", "im", "Symbol", "oo", "nan"]
INDEX_BASES = ["p", "v", "th", "h", "up", "eth"]  # some base names are suffixes of others; none is a plain symbol name (open finding K3)
EXPR_FUNCS = ["sin", "cos", "exp"]


def symbol_atoms(shadow=True, indexed=True, names=None):
    opts = [st.sampled_from(names or PLAIN_NAMES).map(lambda n: ["sym", n])]
    if shadow and not names:
        opts.append(st.sampled_from(SHADOW_NAMES).map(lambda n: ["sym", n]))
    if indexed and not names:
        opts.append(st.builds(lambda b, i: ["idx", b, i], st.sampled_from(INDEX_BASES),
                              st.integers(0, 12)))
        # two vectors whose names end alike, read at the same index, in one expression
        opts.append(st.builds(lambda pair, i, k: ["+", ["idx", pair[0], i], ["*", ["int", k], ["idx", pair[1], i]]],
                              st.sampled_from([("eth", "th"), ("th", "h"), ("h", "th"), ("up", "p"), ("p", "up")]), st.integers(0, 12), st.sampled_from([2, 3, -1])))
    return st.one_of(*opts)


def number_atoms():
    return st.one_of(
        st.integers(-3, 3).filter(lambda k: k != 0).map(lambda k: ["int", k]),
        st.sampled_from([[1, 3], [-2, 3], [1, 2], [5, 7]]).map(lambda r: ["rat"] + r),
        st.sampled_from([0.25, 1.37, -0.1, 0.5, 3.5, 2.0]).map(lambda x: ["flt", x]),
        st.floats(0.01, 9.0, allow_nan=False).map(lambda x: ["flt", x]),
    )


def expr_specs(depth=2, **sym_kw):
    """Symbolic expression specs that always mention at least one symbol."""
    sym = symbol_atoms(**sym_kw)

    def extend(children):
        return st.one_of(
            st.builds(lambda a, b: ["+", a, b], children, children),
            st.builds(lambda a, b: ["*", a, b], children, children),
            st.builds(lambda a, k: ["*", k, a], children, number_atoms()),
            st.builds(lambda a, k: ["-", a, k], children, number_atoms()),
            st.builds(lambda a, k: ["/", a, k], children, number_atoms()),
            st.builds(lambda f, a: ["fn", f, a], st.sampled_from(EXPR_FUNCS), children),
            st.builds(lambda a: ["neg", a], children),
        )

    return st.recursive(sym, extend, max_leaves=depth * 2 + 1)


def python_complex():
    """Spec of a Python complex number (a Python number like any other)."""
    part = st.one_of(st.floats(-7, 7, allow_nan=False), st.sampled_from([0.0, 1.0, -0.5, 0.30000000000000004, 1e-20, 1e22, 123456.789]))
    return st.builds(lambda a, b: ["cplx", a, b], part, part)


def python_numbers():
    return st.one_of(
        st.floats(-7, 7, allow_nan=False),
        st.integers(-3, 3),
        st.sampled_from([0.30000000000000004, 1e-20, 1e22, -0.1, 0.1, 1 / 3, -2.5e-7, 123456.789]),
        st.floats(allow_nan=False, allow_infinity=False, width=64).filter(lambda x: x == 0 or 1e-300 < abs(x) < 1e300),
    )


def is_symbolic(p):
    return isinstance(p, list) and p[0] != "cplx"


def spec_has_symbols(gspec):
    return any(is_symbolic(p) for p in gspec.get("p", []))


def assignment_for(symbols, vseed):
    """Deterministic numeric assignment for a collection of sympy symbols."""
    rs = np.random.RandomState(vseed % (2 ** 32))
    return {s: float(rs.uniform(-2, 2)) for s in sorted(symbols, key=lambda x: (str(x), bool(x.is_real)))}
