"""Decoders (bytes -> spec via a FuzzedDataProvider-like object) and oracles of the fuzz targets.
Kept free of the atheris import so that replay of a decoded failing spec runs in-process."""
import cmath

from . import harness, pgen

COEFS = [1, -1, 2, 0.5, -0.25, 1e-5, 1e16, -2.5e17, 3.3e-7, 123456789.125, 0.1, 1e22]
INDEX = [0, 1, 2, 3, 7, 10, 12, 345, 1002]


def decode_pauli_struct(data, make_fdp):
    fdp = make_fdp(data)
    terms = []
    for _ in range(fdp.ConsumeIntInRange(0, 4)):
        ops, used = [], set()
        for _ in range(fdp.ConsumeIntInRange(0, 3)):
            q = INDEX[fdp.ConsumeIntInRange(0, len(INDEX) - 1)]
            if q in used:
                continue
            used.add(q)
            ops.append([q, "XYZ"[fdp.ConsumeIntInRange(0, 2)]])
        kind = fdp.ConsumeIntInRange(0, 3)
        if kind == 0:
            c = COEFS[fdp.ConsumeIntInRange(0, len(COEFS) - 1)]
        elif kind == 1:
            c = fdp.ConsumeFloatInRange(-1e3, 1e3)
        elif kind == 2:
            c = ["c", COEFS[fdp.ConsumeIntInRange(0, len(COEFS) - 1)], fdp.ConsumeFloatInRange(-2, 2)]
        else:
            c = ["c", fdp.ConsumeFloatInRange(-2, 2), COEFS[fdp.ConsumeIntInRange(0, len(COEFS) - 1)]]
        terms.append({"ops": sorted(ops), "c": c})
    return {"terms": terms, "as_term": fdp.ConsumeBool()}


TOKENS = ["X", "Y", "Z", "I", "x", "0", "1", "2", "7", "12", "345", "*", " * ", " + ", "+", "-", "(", ")", "1.5", "2", "0.5",
          "1e-05", "1e+16", "e", "j", "(1+2j)", "(-0+1.5j)", "1.5j", " ", ".", "(1e+20-3j)", "-1", "3.3e-07"]


def decode_pauli_text(data, make_fdp):
    fdp = make_fdp(data)
    toks = [TOKENS[fdp.ConsumeIntInRange(0, len(TOKENS) - 1)] for _ in range(fdp.ConsumeIntInRange(1, 14))]
    return {"text": "".join(toks), "as_term": fdp.ConsumeBool()}


NAMES = ["x", "y", "theta_1", "beta_10", "a2b", "beta_2"]
EXPONENTS = [["int", 2], ["int", 3], ["int", -1], ["int", -2], ["rat", 1, 2], ["rat", -1, 2], ["flt", 0.5], ["flt", -0.5], ["rat", 1, 3]]


def decode_expr(data, make_fdp):
    fdp = make_fdp(data)

    def leaf():
        k = fdp.ConsumeIntInRange(0, 6)
        if k <= 2:
            return ["sym", NAMES[fdp.ConsumeIntInRange(0, len(NAMES) - 1)]]
        if k == 3:
            return ["int", [-3, -2, -1, 1, 2, 3, 5][fdp.ConsumeIntInRange(0, 6)]]
        if k == 4:
            return ["flt", [0.5, -1.25, 2.75, 0.1, 3.3][fdp.ConsumeIntInRange(0, 4)]]
        if k == 5:
            return ["rat", [1, -1, 2, 3][fdp.ConsumeIntInRange(0, 3)], [2, 3, 5][fdp.ConsumeIntInRange(0, 2)]]
        return ["I"]

    def tree(d):
        if d == 0 or fdp.remaining_bytes() == 0 or fdp.ConsumeIntInRange(0, 4) == 0:
            return leaf()
        k = fdp.ConsumeIntInRange(0, 11)
        a = tree(d - 1)
        if k >= 10:
            # shapes whose stored form starts with a negative number without being a product: exp(-1), (-1)**x, 2**(-x)
            nm = ["sym", NAMES[fdp.ConsumeIntInRange(0, len(NAMES) - 1)]]
            neg = ["int", [-1, -2, -3][fdp.ConsumeIntInRange(0, 2)]]
            sp = [["fn", "exp", neg], ["**", neg, nm], ["**", ["int", 2], ["neg", nm]], ["fn", "cos", neg]][fdp.ConsumeIntInRange(0, 3)]
            return [["+", "-", "*", "/"][fdp.ConsumeIntInRange(0, 3)], a, sp]
        if k < 4:
            return [["+", "-", "*", "/"][k], a, tree(d - 1)]
        if k == 4:
            return ["**", a, EXPONENTS[fdp.ConsumeIntInRange(0, len(EXPONENTS) - 1)]]
        if k == 5:
            return ["**", a, ["sym", NAMES[fdp.ConsumeIntInRange(0, len(NAMES) - 1)]]]
        if k == 6:
            return ["sqrt", a]
        if k == 7:
            return ["/", ["int", 1], a]
        if k == 8:
            return ["neg", a]
        return ["fn", ["sin", "cos", "exp", "tan"][fdp.ConsumeIntInRange(0, 3)], a]

    e = tree(fdp.ConsumeIntInRange(1, 5))
    vals = [[fdp.ConsumeFloatInRange(0.3, 2.0) * (1 if fdp.ConsumeBool() else -1) for _ in NAMES] for _ in range(2)]
    return {"e": e, "vals": vals}


def oracle_pauli_struct(spec):
    from orquestra.quantum.operators import PauliSum, PauliTerm
    from props.C11 import _same

    terms = [pgen.build_term(t) for t in spec["terms"]]
    can = {}
    for t in spec["terms"]:
        can = pgen.canon_add(can, pgen.canon_term(t))
    op = terms[0] if (spec["as_term"] and len(terms) == 1) else PauliSum(terms)
    text = str(op)
    back = harness.must(lambda: PauliTerm(text) if isinstance(op, PauliTerm) else PauliSum(text), f"parsing the printed text {text!r}")
    _same(can, back, "text", f"print/parse of {text!r}")
    return bool(spec["terms"]) and (any(not t["ops"] for t in spec["terms"]) or any(isinstance(t["c"], list) or "e" in str(t["c"]) for t in spec["terms"]))


def oracle_pauli_text(spec):
    from orquestra.quantum.operators import PauliSum, PauliTerm
    from props.C11 import _same

    ctor = PauliTerm if spec["as_term"] else PauliSum
    try:
        first = ctor(spec["text"])
    except Exception:  # noqa: BLE001 - the property is about printed text; arbitrary text may be refused
        return False
    can = pgen.canon_of(first)
    if not all(cmath.isfinite(v) for v in can.values()):
        return False
    printed = str(first)
    again = harness.must(lambda: ctor(printed), f"parsing the printed form {printed!r} of accepted text {spec['text']!r}")
    _same(can, again, "text", f"parse(print(parse({spec['text']!r})))")
    return len(can) >= 1


def oracle_expr(spec):
    from props.C19 import o_value

    out = o_value(spec) or {}
    return bool(out.get("nontrivial"))



# ---------------------------------------------------------------- C03: arithmetic trees over Pauli operands

ACOEFS = [1, -1, 2, 0.5, -0.25, 3, 1.5, ["c", 0.0, 1.0], ["c", 1.0, -1.0], ["c", 0.5, 2.0], 0, 1e3, 1e-3]


def decode_pauli_arith(data, make_fdp):
    fdp = make_fdp(data)

    def coef():
        return ACOEFS[fdp.ConsumeIntInRange(0, len(ACOEFS) - 1)]

    def term():
        ops, used = [], set()
        for _ in range(fdp.ConsumeIntInRange(0, 3)):
            q = fdp.ConsumeIntInRange(0, 4)
            if q in used:
                continue
            used.add(q)
            ops.append([q, "XYZ"[fdp.ConsumeIntInRange(0, 2)]])
        return {"ops": sorted(ops), "c": coef()}

    def leaf():
        k = fdp.ConsumeIntInRange(0, 5)
        if k <= 2:
            return {"t": term()}
        if k <= 4:
            ts = [term() for _ in range(fdp.ConsumeIntInRange(0, 3))]
            if ts and fdp.ConsumeIntInRange(0, 3) == 0 and pgen.coef(ts[0]["c"]) != 0:
                # a like term that nearly cancels the first one
                c, d = ts[0]["c"], pgen.NEAR_CANCEL[fdp.ConsumeIntInRange(0, len(pgen.NEAR_CANCEL) - 1)]
                ts.append({"ops": ts[0]["ops"], "c": ["c", -c[1] * (1 + d), -c[2] * (1 + d)] if isinstance(c, list) else -float(c) * (1 + d)})
            return {"s": {"terms": ts}}
        c = coef()
        return {"n": c if c != 0 else 2}

    def tree(d):
        if d == 0 or fdp.remaining_bytes() == 0 or fdp.ConsumeIntInRange(0, 3) == 0:
            return leaf()
        k = fdp.ConsumeIntInRange(0, 5)
        a = tree(d - 1)
        if k <= 2:
            return {"op": "+-*"[k], "a": a, "b": tree(d - 1)}
        if k == 3:
            c = coef()
            return {"op": "/", "a": a, "s": c if c != 0 else 2}
        return {"op": "**", "a": a, "k": fdp.ConsumeIntInRange(0, 3)}

    return {"tree": tree(fdp.ConsumeIntInRange(1, 3))}


def oracle_pauli_arith(spec):
    from props.C03 import o_tree

    try:
        out = o_tree(spec) or {}
    except ZeroDivisionError:
        return False
    return bool(out.get("nontrivial"))


# ---------------------------------------------------------------- C13: shot conservation

def decode_shots(data, make_fdp):
    fdp = make_fdp(data)
    mx = [1, 2, 3, 7, 10, 100, 1000, 8192][fdp.ConsumeIntInRange(0, 7)] if fdp.ConsumeBool() else fdp.ConsumeIntInRange(1, 10000)
    huge = fdp.ConsumeIntInRange(0, 7) == 0
    if huge:
        mx = [2 ** 52, 2 ** 53, 2 ** 53 + 1, 10 ** 16, 2 ** 64][fdp.ConsumeIntInRange(0, 4)] + fdp.ConsumeIntInRange(0, 3)
    ns = []
    for _ in range(fdp.ConsumeIntInRange(0, 8)):
        k = fdp.ConsumeIntInRange(0, 3)
        m = fdp.ConsumeIntInRange(0, 5)
        if huge:
            m = fdp.ConsumeIntInRange(0, 40)
            ns.append(max(1, m * mx + fdp.ConsumeIntInRange(-2, 2)))
            continue
        if k == 0:
            n = [1, mx, mx + 1, mx - 1, m * mx, m * mx + 1, m * mx - 1][fdp.ConsumeIntInRange(0, 6)]
        elif k == 1:
            n = fdp.ConsumeIntInRange(1, 5 * mx)
        else:
            n = fdp.ConsumeIntInRange(1, min(10 ** 6, 300 * mx))
        ns.append(max(1, n))
    expand = {"mx": mx, "ns": ns, "bsz": fdp.ConsumeIntInRange(1, 5), "wrong": fdp.ConsumeIntInRange(-2, 2), "bits": fdp.ConsumeIntInRange(1, 3),
              "container": ["dict", "counter", "ordered", "shared"][fdp.ConsumeIntInRange(0, 3)], "twice": fdp.ConsumeBool()}
    vals = []
    for _ in range(fdp.ConsumeIntInRange(1, 8)):
        k = fdp.ConsumeIntInRange(0, 3)
        vals.append([1 / 3, 0.1, 0.5, 2.5, 1e-6][fdp.ConsumeIntInRange(0, 4)] if k == 0 else
                    (fdp.ConsumeIntInRange(1, 9) if k == 1 else (fdp.ConsumeFloatInRange(1e-6, 1) if k == 2 else fdp.ConsumeFloatInRange(1, 1e6))))
    disc = {"vals": vals, "total": fdp.ConsumeIntInRange(0, 10 ** 4) if fdp.ConsumeBool() else fdp.ConsumeIntInRange(0, 60)}
    return {"expand": expand, "disc": disc}


def oracle_shots(spec):
    from props.C13 import o_disc, o_expand

    a = o_expand(spec["expand"]) or {}
    b = o_disc(spec["disc"]) or {}
    return bool(a.get("nontrivial")) or bool(b.get("nontrivial"))


# ---------------------------------------------------------------- C17: normalisation and marginals

def decode_marginal(data, make_fdp):
    fdp = make_fdp(data)
    n = fdp.ConsumeIntInRange(1, 4)
    values = [0, 1] if fdp.ConsumeIntInRange(0, 3) else [0, 1, 2, 3, 10, 12]
    keys, seen = [], set()
    for _ in range(fdp.ConsumeIntInRange(1, 10)):
        k = tuple(values[fdp.ConsumeIntInRange(0, len(values) - 1)] for _ in range(n))
        if k not in seen:
            seen.add(k)
            keys.append(list(k))
    ws = []
    for _ in keys:
        k = fdp.ConsumeIntInRange(0, 3)
        ws.append([0.0, 1.0, 0.25, 1e-9][fdp.ConsumeIntInRange(0, 3)] if k == 0 else
                  (fdp.ConsumeIntInRange(0, 50) if k == 1 else (fdp.ConsumeFloatInRange(1e-9, 1) if k == 2 else fdp.ConsumeFloatInRange(1e-9, 1e6))))
    if sum(ws) <= 0:
        ws[0] = 1.0
    bits = all(v in (0, 1) for k in keys for v in k)
    form = ["tuple", "str" if bits else "comma", "comma"][fdp.ConsumeIntInRange(0, 2)]

    def qubit_list():
        pool = list(range(n))
        out = []
        for _ in range(fdp.ConsumeIntInRange(1, n)):
            out.append(pool.pop(fdp.ConsumeIntInRange(0, len(pool) - 1)))
        return out

    return {"d": {"n": n, "keys": keys, "w": ws, "form": form}, "qs": qubit_list(), "more": [qubit_list() for _ in range(fdp.ConsumeIntInRange(0, 2))],
            "bad": None, "normalize": fdp.ConsumeIntInRange(0, 2) > 0}


def oracle_marginal(spec):
    from props.C17 import o_marginal

    out = o_marginal(spec) or {}
    return bool(out.get("nontrivial"))


DECODERS = {"pauli_struct": decode_pauli_struct, "pauli_text": decode_pauli_text, "expr": decode_expr,
            "pauli_arith": decode_pauli_arith, "shots": decode_shots, "marginal": decode_marginal}
ORACLES = {"pauli_struct": oracle_pauli_struct, "pauli_text": oracle_pauli_text, "expr": oracle_expr,
           "pauli_arith": oracle_pauli_arith, "shots": oracle_shots, "marginal": oracle_marginal}
