"""Pauli operator specs, strategies, builders, and an independent canonical-form algebra.

term spec : {"ops": [[qubit, "X"|"Y"|"Z"], ...], "c": coef}
coef spec : int | float | ["c", re, im]
sum spec  : {"terms": [term spec, ...]}
operand   : {"t": term} | {"s": sum} | {"n": coef}
"""
import itertools

import numpy as np
from hypothesis import strategies as st

from . import ref

# single-qubit product table derived from the 2x2 matrices themselves
_MUL = {}
for _a, _b in itertools.product("IXYZ", repeat=2):
    _m = ref.PAULI[_a] @ ref.PAULI[_b]
    for _c in "IXYZ":
        _ph = np.trace(ref.PAULI[_c].conj().T @ _m) / 2
        if abs(_ph) > 0.5:
            _MUL[_a + _b] = (_c, complex(_ph))


def coef(c):
    return complex(c[1], c[2]) if isinstance(c, list) else c


def build_term(t):
    from orquestra.quantum.operators import PauliTerm

    return PauliTerm({int(q): p for q, p in t["ops"]}, coef(t["c"]))


def build_sum(s):
    from orquestra.quantum.operators import PauliSum

    return PauliSum([build_term(t) for t in s["terms"]])


def build_operand(o):
    if "t" in o:
        return build_term(o["t"])
    if "s" in o:
        return build_sum(o["s"])
    return coef(o["n"])


# ---- canonical form: {((q, P), ...) sorted: complex} ; numbers are {(): c}


def canon_term(t):
    return {tuple(sorted((int(q), p) for q, p in t["ops"])): complex(coef(t["c"]))}


def canon_add(a, b, sign=1):
    out = dict(a)
    for k, v in b.items():
        out[k] = out.get(k, 0) + sign * v
    return out


def canon_sum(s):
    out = {}
    for t in s["terms"]:
        out = canon_add(out, canon_term(t))
    return out


def canon_operand(o):
    if "t" in o:
        return canon_term(o["t"])
    if "s" in o:
        return canon_sum(o["s"])
    return {(): complex(coef(o["n"]))}


def _mul_strings(ka, kb):
    da, db = dict(ka), dict(kb)
    ph = 1 + 0j
    out = {}
    for q in set(da) | set(db):
        c, p = _MUL[da.get(q, "I") + db.get(q, "I")]
        ph *= p
        if c != "I":
            out[q] = c
    return tuple(sorted(out.items())), ph


def canon_mul(a, b):
    out = {}
    for ka, va in a.items():
        for kb, vb in b.items():
            k, ph = _mul_strings(ka, kb)
            out[k] = out.get(k, 0) + va * vb * ph
    return out


def canon_scale(a, s):
    return {k: v * s for k, v in a.items()}


def canon_pow(a, k):
    out = {(): 1 + 0j}
    for _ in range(k):
        out = canon_mul(out, a)
    return out


def canon_norm(a):
    """Upper bound on the operator norm: sum of |coefficients|."""
    return float(sum(abs(v) for v in a.values()))


def raw_norm(o):
    """Sum of |coefficients| of an operand spec as written (like terms not merged): the magnitude the library's
    term-by-term arithmetic works with, hence the scale of its rounding errors."""
    if "t" in o:
        return float(abs(coef(o["t"]["c"])))
    if "s" in o:
        return float(sum(abs(coef(t["c"])) for t in o["s"]["terms"]))
    return float(abs(coef(o["n"])))


def canon_of(op):
    """Canonical form of a library PauliTerm / PauliSum / number (reads only public data)."""
    if isinstance(op, (int, float, complex)):
        return {(): complex(op)}
    out = {}
    for t in op.terms:
        k = tuple(sorted((int(q), p) for q, p in t.operations))
        out[k] = out.get(k, 0) + complex(t.coefficient)
    return out


def canon_diff(a, b):
    keys = set(a) | set(b)
    return max([abs(a.get(k, 0) - b.get(k, 0)) for k in keys] or [0.0])


def canon_width(a):
    return max([q + 1 for k in a for q, _ in k] or [0])


def canon_matrix(a, n):
    return ref.canon_matrix(a, n)


def lib_matrix(op, n):
    return canon_matrix(canon_of(op), n)


def canon_to_json(a):
    return [[[list(x) for x in k], [v.real, v.imag]] for k, v in sorted(a.items())]


# ---------------------------------------------------------------- strategies


def coefs(zero=True, kinds=("int", "float", "complex")):
    opts = []
    if "int" in kinds:
        opts.append(st.integers(-3, 3) if zero else st.integers(1, 3).map(lambda x: x))
        opts.append(st.sampled_from([-2, -1, 1, 2]))
    if "float" in kinds:
        mag = st.floats(1e-3, 1e3, allow_nan=False)
        opts.append(st.builds(lambda s, m: s * m, st.sampled_from([-1.0, 1.0]), mag))
        opts.append(st.sampled_from([0.5, -0.25, 1.5, 2.0, -1.0, 0.125, 50.0, -400.0, 1000.0]))
    if "complex" in kinds:
        part = st.one_of(
            st.floats(-2, 2, allow_nan=False).filter(lambda x: x == 0 or abs(x) >= 1e-3),
            st.sampled_from([0.0, 1.0, -1.0, 0.5]),
        )
        cx = st.builds(lambda a, b: ["c", a, b], part, part)
        opts.append(cx if zero else cx.filter(lambda c: c[1] != 0 or c[2] != 0))
    if zero:
        opts.append(st.sampled_from([0, 0.0]))
    return st.one_of(*opts)


@st.composite
def terms(draw, max_q=5, zero=True, kinds=("int", "float", "complex"), letters="XYZ", big_index=False):
    qs = draw(st.lists(st.integers(0, max_q - 1), unique=True, max_size=max_q))
    if big_index and qs and draw(st.integers(0, 4)) == 0:
        qs[0] = draw(st.integers(10, 1200))
    ops = [[q, draw(st.sampled_from(list(letters)))] for q in sorted(set(qs))]
    if len(ops) >= 2 and draw(st.integers(0, 3)) == 0:
        # the factors of a term may be written (and are then stored) in any order, e.g. Z2*Z0 - as products of terms are
        ops = list(draw(st.permutations(ops)))
    return {"ops": ops, "c": draw(coefs(zero, kinds))}


NEAR_CANCEL = [1e-5, -3e-6, 4e-7, 1e-7, -5e-8, 8e-9, -2e-9, 2.5e-10]


@st.composite
def sums(draw, max_q=5, max_terms=6, dup=True, near_cancel=False, **kw):
    ts = draw(st.lists(terms(max_q=max_q, **kw), max_size=max_terms))
    if dup and ts and draw(st.integers(0, 2)) == 0:
        t = dict(draw(st.sampled_from(ts)))
        if near_cancel and draw(st.integers(0, 1)) == 0 and coef(t["c"]) != 0:
            # a like term that nearly cancels the first one: the residue is small next to the summands but is part of the
            # operator as written (and, unless below the library's absolute 1e-8 zero tolerance, of every result)
            c = t["c"]
            if draw(st.booleans()):
                d = draw(st.sampled_from(NEAR_CANCEL))
                t["c"] = ["c", -c[1] * (1 + d), -c[2] * (1 + d)] if isinstance(c, list) else -float(c) * (1 + d)
            else:
                r = draw(st.sampled_from([8e-9, -3e-9, 5e-10, 9.5e-9, 2e-7, -1e-5, 1.2e-8]))  # the residue itself
                t["c"] = ["c", -c[1] - r, -c[2]] if isinstance(c, list) else -float(c) - r
        else:
            t["c"] = draw(coefs(kw.get("zero", True), kw.get("kinds", ("int", "float", "complex"))))
        ts.insert(draw(st.integers(0, len(ts))), t)
    return {"terms": ts}


def operands(max_q=4, numbers=True, near_cancel=False, **kw):
    opts = [terms(max_q=max_q, **kw).map(lambda t: {"t": t}),
            sums(max_q=max_q, max_terms=4, near_cancel=near_cancel, **kw).map(lambda s: {"s": s})]
    if numbers:
        opts.append(coefs().map(lambda c: {"n": c}))
    return st.one_of(*opts)
