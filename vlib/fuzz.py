"""Coverage-guided fuzzing tier (Atheris / libFuzzer), thorough tier only.

A campaign runs `tools/fuzz_target.py` in a child process (atheris.Fuzz() never returns and
skips atexit). The target decodes the bytes into the same spec format the Hypothesis
strategies emit, calls the property's own oracle and, on a Violation, writes the decoded spec
to a crash file. The parent reads libFuzzer's statistics, re-decodes the final corpus to count
distinct non-trivial specs and turns a crash into the usual replay spec."""
import glob
import json
import os
import re
import shutil
import subprocess
import sys

from .harness import VERIF_DIR, HarnessError, Violation, spec_hash


def run_campaign(spec):
    """spec: {"target": name, "runs": n, "corpus": "empty"|"seeded", "seed": int, "max_len": int}
    or, for replay, {"target": name, "decoded": <spec the target decoded from the failing bytes>}"""
    if "decoded" in spec:
        from . import fuzzlib

        fuzzlib.ORACLES[spec["target"]](spec["decoded"])
        return {"nontrivial": False}
    work = os.path.join(VERIF_DIR, ".work", "fuzz-%s-%s-%d-%d" % (spec["target"], spec["corpus"], spec["seed"], os.getpid()))
    shutil.rmtree(work, ignore_errors=True)
    corpus = os.path.join(work, "corpus")
    os.makedirs(corpus)
    out_json = os.path.join(work, "summary.json")
    crash_json = os.path.join(work, "crash.json")
    env = dict(os.environ)
    env["OQ_FUZZ_TARGET"] = spec["target"]
    env["OQ_FUZZ_CRASH"] = crash_json
    stats_json = os.path.join(work, "stats.json")
    env["OQ_FUZZ_STATS"] = stats_json
    env["OQ_FUZZ_SEEDED"] = "1" if spec["corpus"] == "seeded" else "0"
    env["PYTHONPATH"] = os.pathsep.join([VERIF_DIR, os.path.join(VERIF_DIR, ".deps"), env.get("PYTHONPATH", "")])
    cmd = [sys.executable, os.path.join(VERIF_DIR, "tools", "fuzz_target.py"), corpus,
           "-runs=%d" % spec["runs"], "-seed=%d" % (spec["seed"] % (2 ** 31 - 1) + 1), "-max_len=%d" % spec.get("max_len", 256),
           "-artifact_prefix=" + work + "/", "-print_final_stats=1", "-verbosity=0"]
    try:
        r = subprocess.run(cmd, env=env, capture_output=True, text=True, timeout=spec.get("timeout", 1500), cwd=work)
        log = r.stderr + r.stdout
        if os.path.exists(crash_json):
            rec = json.load(open(crash_json))
            v = Violation("fuzz target %s: %s" % (spec["target"], rec["message"]))
            v.spec_override = {"target": spec["target"], "decoded": rec["spec"]}
            raise v
        m = re.search(r"stat::number_of_executed_units:\s*(\d+)", log)
        if r.returncode != 0 and re.search(r"(ModuleNotFoundError|ImportError)[^\n]*atheris", log):
            # the coverage-guided tier needs the atheris wheel that tools/setup.py installs into .deps; without it this
            # sub-check has nothing to say (the Hypothesis sub-checks of the property are unaffected)
            return {"inconclusive": "atheris_unavailable"}
        if r.returncode != 0 or not m:
            raise HarnessError("fuzz campaign failed (exit %s): %s" % (r.returncode, log[-800:]))
        execs = int(m.group(1))
        # re-decode the final corpus
        env2 = dict(env, OQ_FUZZ_DECODE_ONLY=out_json)
        subprocess.run([sys.executable, os.path.join(VERIF_DIR, "tools", "fuzz_target.py"), corpus], env=env2,
                       capture_output=True, text=True, timeout=300, cwd=work)
        summ = json.load(open(out_json)) if os.path.exists(out_json) else {"nt_hashes": [], "samples": [], "corpus": 0}
        cov = re.findall(r"cov: (\d+)", log)
        if os.path.exists(stats_json):  # non-trivial cases among everything executed (the final corpus only keeps coverage-increasing inputs)
            st_ = json.load(open(stats_json))
            summ["nt_hashes"] = sorted(set(summ["nt_hashes"]) | set(st_.get("nt_hashes", [])))
            summ["samples"] = (summ["samples"] + st_.get("samples", []))[:3]
        return {"bulk": {"evaluations": execs, "nt_hashes": summ["nt_hashes"], "samples": summ["samples"][:3]},
                "classes": ["corpus:" + spec["corpus"]], "nontrivial": False,
                "note": {"executions": execs, "corpus_entries": summ["corpus"], "coverage_edges": int(cov[-1]) if cov else None}}
    except subprocess.TimeoutExpired:
        return {"inconclusive": "fuzz_timeout"}
    finally:
        shutil.rmtree(work, ignore_errors=True)
