"""Independent reference models (numpy / pure Python). Shares no code with the library."""
import cmath
import itertools
import math

import numpy as np
import scipy.linalg as sl

PX = np.array([[0, 1], [1, 0]], dtype=complex)
PY = np.array([[0, -1j], [1j, 0]], dtype=complex)
PZ = np.array([[1, 0], [0, -1]], dtype=complex)
I2 = np.eye(2, dtype=complex)
HH = (PX + PZ) / math.sqrt(2)
PAULI = {"I": I2, "X": PX, "Y": PY, "Z": PZ}


def npm(m):
    """Any matrix-like (sympy / numpy) holding numbers -> complex ndarray."""
    if hasattr(m, "tolist") and not isinstance(m, np.ndarray):
        return np.array(m.tolist(), dtype=complex)
    return np.asarray(m, dtype=complex)


def embed_apply(M, qubits, n, vec):
    """Apply the k-qubit matrix M to the listed qubits (axis 0 = qubit 0 = MSB)."""
    k = len(qubits)
    M = np.asarray(M, dtype=complex).reshape((2,) * (2 * k))
    psi = np.asarray(vec, dtype=complex).reshape((2,) * n)
    out = np.tensordot(M, psi, axes=(list(range(k, 2 * k)), list(qubits)))
    out = np.moveaxis(out, list(range(k)), list(qubits))
    return out.reshape(-1)


def embed(M, qubits, n):
    eye = np.eye(2 ** n, dtype=complex)
    return np.stack([embed_apply(M, qubits, n, e) for e in eye], axis=1)


def rot(P, a):
    return sl.expm(-1j * a / 2 * P)


def _xy(a):
    return sl.expm(1j * a / 4 * (np.kron(PX, PX) + np.kron(PY, PY)))


def _u3(t, p, l):
    return np.array(
        [
            [math.cos(t / 2), -cmath.exp(1j * l) * math.sin(t / 2)],
            [cmath.exp(1j * p) * math.sin(t / 2), cmath.exp(1j * (p + l)) * math.cos(t / 2)],
        ],
        dtype=complex,
    )


def _gpi(t):
    return np.array([[0, cmath.exp(-1j * t)], [cmath.exp(1j * t), 0]], dtype=complex)


def _gpi2(t):
    return np.array(
        [[1, -1j * cmath.exp(-1j * t)], [-1j * cmath.exp(1j * t), 1]], dtype=complex
    ) / math.sqrt(2)


def _ms(a, b):
    return np.array(
        [
            [1, 0, 0, -1j * cmath.exp(-1j * (a + b))],
            [0, 1, -1j * cmath.exp(-1j * (a - b)), 0],
            [0, -1j * cmath.exp(1j * (a - b)), 1, 0],
            [-1j * cmath.exp(1j * (a + b)), 0, 0, 1],
        ],
        dtype=complex,
    ) / math.sqrt(2)


# name -> (arity, n_params, closed form)
GATES = {
    "X": (1, 0, lambda: PX),
    "Y": (1, 0, lambda: PY),
    "Z": (1, 0, lambda: PZ),
    "H": (1, 0, lambda: HH),
    "I": (1, 0, lambda: I2),
    "S": (1, 0, lambda: np.diag([1, 1j]).astype(complex)),
    "T": (1, 0, lambda: np.diag([1, cmath.exp(1j * math.pi / 4)]).astype(complex)),
    "SX": (1, 0, lambda: np.array([[1 + 1j, 1 - 1j], [1 - 1j, 1 + 1j]], dtype=complex) / 2),
    "RX": (1, 1, lambda a: rot(PX, a)),
    "RY": (1, 1, lambda a: rot(PY, a)),
    "RZ": (1, 1, lambda a: rot(PZ, a)),
    "RH": (1, 1, lambda a: cmath.exp(1j * a / 2) * rot(HH, a)),
    "PHASE": (1, 1, lambda a: np.diag([1, cmath.exp(1j * a)]).astype(complex)),
    "U3": (1, 3, _u3),
    "GPi": (1, 1, _gpi),
    "GPi2": (1, 1, _gpi2),
    "CNOT": (2, 0, lambda: np.block([[I2, 0 * I2], [0 * I2, PX]])),
    "CZ": (2, 0, lambda: np.diag([1, 1, 1, -1]).astype(complex)),
    "SWAP": (
        2, 0,
        lambda: np.array([[1, 0, 0, 0], [0, 0, 1, 0], [0, 1, 0, 0], [0, 0, 0, 1]], dtype=complex),
    ),
    "ISWAP": (
        2, 0,
        lambda: np.array([[1, 0, 0, 0], [0, 0, 1j, 0], [0, 1j, 0, 0], [0, 0, 0, 1]], dtype=complex),
    ),
    "CPHASE": (2, 1, lambda a: np.diag([1, 1, 1, cmath.exp(1j * a)]).astype(complex)),
    "XX": (2, 1, lambda a: rot(np.kron(PX, PX), a)),
    "YY": (2, 1, lambda a: rot(np.kron(PY, PY), a)),
    "ZZ": (2, 1, lambda a: rot(np.kron(PZ, PZ), a)),
    "XY": (2, 1, _xy),
    "MS": (2, 2, _ms),
    "Delay": (1, 1, lambda a: I2),
}
HERMITIAN_FLAGGED = {"X", "Y", "Z", "H", "I", "CNOT", "CZ", "SWAP", "GPi", "Delay"}
ONE_PARAM_GROUPS = ["RX", "RY", "RZ", "RH", "PHASE", "CPHASE", "XX", "YY", "ZZ", "XY"]


def closed(name, params):
    return np.asarray(GATES[name][2](*params), dtype=complex)


def controlled(M, k):
    """k controls first: identity on the first dim*(2^k-1) basis states, then M."""
    M = np.asarray(M, dtype=complex)
    d = M.shape[0]
    out = np.eye(d * 2 ** k, dtype=complex)
    out[-d:, -d:] = M
    return out


def apply_mods(M, mods):
    """Reference semantics of a modifier chain given as a list of
    ["dag"] | ["c", k] | ["pow", p] | ["exp"] (fractional pow is not unique: not here)."""
    M = np.asarray(M, dtype=complex)
    for m in mods:
        if m[0] == "dag":
            M = M.conj().T
        elif m[0] == "c":
            M = controlled(M, m[1])
        elif m[0] == "pow":
            p = m[1]
            if float(p) != int(p):
                raise ValueError("fractional power has no unique reference")
            M = np.linalg.matrix_power(M, int(p)) if p >= 0 else np.linalg.matrix_power(
                np.linalg.inv(M), -int(p)
            )
        elif m[0] == "exp":
            M = sl.expm(M)
        else:
            raise ValueError(m)
    return M


def close(A, B, tol=1e-8):
    A = np.asarray(A)
    B = np.asarray(B)
    if A.shape != B.shape:
        return False
    scale = max(1.0, float(np.max(np.abs(B))) if B.size else 1.0)
    return bool(np.all(np.abs(A - B) <= tol * scale))


def maxdiff(A, B):
    A = np.asarray(A)
    B = np.asarray(B)
    if A.shape != B.shape:
        return float("inf")
    return float(np.max(np.abs(A - B))) if A.size else 0.0


def equal_up_to_phase(A, B, tol=1e-8):
    A = np.asarray(A, dtype=complex)
    B = np.asarray(B, dtype=complex)
    if A.shape != B.shape:
        return False
    idx = np.unravel_index(np.argmax(np.abs(B)), B.shape)
    if abs(B[idx]) < 1e-12 or abs(A[idx]) < 1e-12:
        return close(A, B, tol)
    ph = A[idx] / B[idx]
    if abs(abs(ph) - 1) > 1e-6:
        return False
    return close(A, B * ph, tol)


# ---------------------------------------------------------------- Pauli algebra


def pauli_string_matrix(ops, n):
    """ops: dict qubit -> 'X'|'Y'|'Z'; qubit 0 is the leftmost Kronecker factor."""
    M = np.array([[1.0 + 0j]])
    for q in range(n):
        M = np.kron(M, PAULI[ops.get(q, "I")])
    return M


def canon_matrix(canon, n):
    """canon: {tuple of (qubit, op) sorted: coefficient} -> dense matrix on n qubits."""
    M = np.zeros((2 ** n, 2 ** n), dtype=complex)
    for key, c in canon.items():
        M = M + complex(c) * pauli_string_matrix(dict(key), n)
    return M


def bit_reverse_perm(n):
    return [int(format(i, "0%db" % n)[::-1], 2) if n else 0 for i in range(2 ** n)]


def basis_index(bits):
    """Index of the basis state whose qubit q holds bits[q] (qubit 0 = MSB)."""
    idx = 0
    for b in bits:
        idx = idx * 2 + int(b)
    return idx


def all_bit_tuples(n):
    return list(itertools.product([0, 1], repeat=n))
