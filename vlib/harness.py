"""Shared machinery: sub-check definition, seeded Hypothesis runs in worker processes,
counters, evidence writer, violation / replay plumbing, known-findings handling.

Exit codes of a check: 0 held, 1 violation (with a VIOLATION line), 2 harness error.
"""
import collections
import hashlib
import json
import multiprocessing
import os
import pickle
import select
import signal
import sys
import time
import traceback

VERIF_DIR = os.path.dirname(os.path.dirname(os.path.abspath(__file__)))
REPO_ROOT = os.environ.get("OQ_VERIF_ROOT", "/repo")
LIB_SRC = os.path.join(REPO_ROOT, "src")
N_CORES = int(os.environ.get("VERIF_CORES", "16"))
# wall-clock budget of one check run (seconds; quick, thorough); override with VERIF_BUDGET_S. When it is used up the
# remaining generated cases are skipped and counted as such (inconclusive - never a violation, never a non-zero exit).
BUDGET_S = (900, 1500)


# ---------------------------------------------------------------- exceptions


class Violation(AssertionError):
    """The library broke the property on this case."""


class HarnessError(BaseException):
    """Bug in the harness (strategy / build / reference code). Never a VIOLATION.

    Derives from BaseException so Hypothesis neither shrinks nor swallows it."""


def fail(msg):
    raise Violation(msg)


def require(cond, msg):
    if not cond:
        raise Violation(msg() if callable(msg) else msg)


def _has_library_frame(exc):
    tb = exc.__traceback__
    while tb is not None:
        fn = tb.tb_frame.f_code.co_filename
        if fn.startswith(LIB_SRC + os.sep):
            return True
        tb = tb.tb_next
    return False


def must(fn, what="call"):
    """The property says this library call succeeds: any exception is a violation."""
    try:
        return fn()
    except (Violation, HarnessError):
        raise
    except Exception as e:  # noqa: BLE001 - deliberate: the property forbids raising
        raise Violation(f"{what} raised {type(e).__name__}: {str(e)[:200]}") from e


def must_raise(types, fn, what="call"):
    """The property says this library call is refused with one of `types`."""
    try:
        out = fn()
    except types as e:
        return e
    except (Violation, HarnessError):
        raise
    except Exception as e:  # noqa: BLE001
        raise Violation(
            f"{what} raised {type(e).__name__} ({str(e)[:120]}) instead of "
            f"{getattr(types, '__name__', types)}"
        ) from e
    raise Violation(f"{what} was accepted (returned {str(out)[:80]!r}) but must be refused")


# ---------------------------------------------------------------- known findings

_KF_CACHE = None


def known_findings():
    global _KF_CACHE
    if _KF_CACHE is None:
        path = os.path.join(VERIF_DIR, "known_findings.json")
        _KF_CACHE = json.load(open(path)) if os.path.exists(path) else []
    return _KF_CACHE


def is_open(fid):
    return any(r["id"] == fid and r.get("status") == "open" for r in known_findings())


def finding(fid):
    for r in known_findings():
        if r["id"] == fid:
            return r
    return None


# ---------------------------------------------------------------- forked evaluation


def forked(fn, timeout=8.0):
    """Run fn() in a forked child; returns ("ok", value) | ("raise", text) | ("timeout", None).

    Used for sympy evaluations that may not terminate; interrupting sympy in-process
    poisons its caches, so the child is killed instead."""
    r, w = os.pipe()
    pid = os.fork()
    if pid == 0:
        os.close(r)
        try:
            out = ("ok", fn())
        except BaseException as e:  # noqa: BLE001
            out = ("raise", type(e).__name__ + ": " + str(e)[:160])
        try:
            with os.fdopen(w, "wb") as fh:
                pickle.dump(out, fh)
        finally:
            os._exit(0)
    os.close(w)
    fh = os.fdopen(r, "rb")
    rl, _, _ = select.select([fh], [], [], timeout)
    if not rl:
        os.kill(pid, signal.SIGKILL)
        os.waitpid(pid, 0)
        fh.close()
        return ("timeout", None)
    try:
        out = pickle.load(fh)
    except Exception:  # noqa: BLE001 - child died without writing
        out = ("raise", "child died")
    fh.close()
    os.waitpid(pid, 0)
    return out


# ---------------------------------------------------------------- sub-checks


class SubCheck:
    """One generated check: strategy (or enumeration) + oracle + non-trivial rule.

    oracle(spec) raises Violation, or returns None / a dict with optional keys
      classes: iterable of labels, nontrivial: bool (overrides the predicate),
      inconclusive: reason (case not counted as evidence), known: finding id.
    """

    def __init__(
        self,
        name,
        oracle,
        strategy=None,
        enumerate=None,
        nontrivial=None,
        classes=None,
        examples=(200, 2000),
        shards=(1, 8),
        rule="",
        exhaustive=False,
        timeout=(600, 3000),
        machine=None,
        steps=(20, 40),
        fork_timeout=None,
        tiers=("quick", "thorough"),
    ):
        self.name = name
        self.oracle = oracle
        self.strategy = strategy
        self.enumerate = enumerate
        self.nontrivial = nontrivial or (lambda spec: True)
        self.classes = classes or (lambda spec: ())
        self.examples = examples
        self.shards = shards
        self.rule = rule
        self.exhaustive = exhaustive
        self.timeout = timeout
        self.machine = machine
        self.steps = steps
        self.fork_timeout = fork_timeout
        self.tiers = tiers


    def replay_trace(self, trace):
        """Re-execute a recorded history without Hypothesis: call the rule methods in order on a
        fresh machine (each rule runs the machine's invariants itself)."""
        result = {}

        def on_end(tr, info, error):
            result["error"] = error

        cls = self.machine(on_end, lambda: False)
        m = cls()
        try:
            for name, kwargs in trace:
                getattr(m, name)(**kwargs)
        finally:
            m.teardown()


def make_trace_machine(on_end, expired):
    """Base class for history checks: rules call self.step(name, kwargs, fn); the trace of
    [rule, kwargs] pairs is the replay file; Violations are recorded for the runner."""
    from hypothesis.stateful import RuleBasedStateMachine

    class TraceMachine(RuleBasedStateMachine):
        def __init__(self):
            super().__init__()
            self.trace = []
            self.error = None
            self.info = {"classes": set(), "nontrivial": False}
            self.dead = False

        def step(self, name, kwargs, fn):
            if self.dead or expired():
                return
            self.trace.append([name, kwargs])
            try:
                fn()
                self.inv()
            except Violation as v:
                self.error = v
                self.dead = True
                raise
            except HarnessError:
                raise
            except Exception as e:  # noqa: BLE001
                if _has_library_frame(e):
                    self.error = Violation(f"unexpected {type(e).__name__} from the library in {name}: {str(e)[:200]}")
                    self.dead = True
                    raise self.error from e
                raise HarnessError("harness bug in rule %s: %r\n%s" % (name, e, traceback.format_exc())) from e

        def inv(self):
            pass

        def teardown(self):
            info = dict(self.info)
            info["classes"] = sorted(info.get("classes", ()))
            on_end(self.trace, info, self.error)

    return TraceMachine


def tier_index(tier):
    return 0 if tier == "quick" else 1


def spec_hash(spec):
    s = json.dumps(spec, sort_keys=True, default=repr)
    return int.from_bytes(hashlib.blake2b(s.encode(), digest_size=8).digest(), "big")


def derive_seed(seed, prop, sub, shard):
    s = f"{seed}/{prop}/{sub}/{shard}".encode()
    return int.from_bytes(hashlib.blake2b(s, digest_size=6).digest(), "big")


class Stats:
    def __init__(self):
        self.evaluations = 0
        self.nt = set()
        self.classes = collections.Counter()
        self.inconclusive = collections.Counter()
        self.inconclusive_examples = []
        self.samples = []
        self.known = collections.Counter()
        self.violation = None  # (spec, message)
        self.harness_error = None
        self.wall = 0.0
        self.skipped_budget = 0  # generated cases not evaluated because the wall-clock budget of the run was used up

    def as_dict(self):
        return self.__dict__


_LAST_OVERRIDE = [None]


def _evaluate(sc, spec):
    """-> ("ok", info) | ("violation", message) | ("harness", message); never raises."""
    try:
        info = sc.oracle(spec) or {}
        info = dict(info)
        info["classes"] = sorted(set(sc.classes(spec)) | set(info.get("classes", ())))
        if "nontrivial" not in info:
            info["nontrivial"] = bool(sc.nontrivial(spec))
        else:
            info["nontrivial"] = bool(info["nontrivial"])
        return ("ok", info)
    except Violation as v:
        _LAST_OVERRIDE[0] = getattr(v, "spec_override", None)
        return ("violation", str(v))
    except HarnessError as e:
        return ("harness", str(e))
    except Exception as e:  # noqa: BLE001
        if _has_library_frame(e):
            return (
                "violation",
                f"unexpected {type(e).__name__} from the library: {str(e)[:200]}",
            )
        return ("harness", "harness bug in %s: %r\n%s" % (sc.name, e, traceback.format_exc()))


def run_case(sc, spec, stats):
    """Evaluate one case, update counters; raises Violation on a property failure."""
    stats.evaluations += 1
    if sc.fork_timeout:
        kind, out = forked(lambda: _evaluate(sc, spec), sc.fork_timeout)
        if kind == "timeout":
            kind, out = "ok", {"inconclusive": "timeout"}
        elif kind == "raise":
            kind, out = "harness", "forked evaluation failed: " + str(out)
        else:
            kind, out = out
    else:
        kind, out = _evaluate(sc, spec)
    if kind == "violation":
        v = Violation(out)
        if not sc.fork_timeout and _LAST_OVERRIDE[0] is not None:
            v.spec_override = _LAST_OVERRIDE[0]
            _LAST_OVERRIDE[0] = None
        raise v
    if kind == "harness":
        raise HarnessError(out)
    info = out
    if info.get("inconclusive"):
        stats.inconclusive[info["inconclusive"]] += 1
        if len(stats.inconclusive_examples) < 5:
            stats.inconclusive_examples.append(spec)
        return info
    if info.get("known"):
        stats.known[info["known"]] += 1
    for lab in info["classes"]:
        stats.classes[lab] += 1
    bulk = info.get("bulk")
    if bulk:  # a whole campaign (coverage-guided fuzzing) reported as one case
        stats.evaluations += int(bulk.get("evaluations", 0))
        for h in bulk.get("nt_hashes", ()):
            stats.nt.add(h)
        for s in bulk.get("samples", ()):
            if len(stats.samples) < 3:
                stats.samples.append(s)
    if info["nontrivial"]:
        h = spec_hash(spec)
        if h not in stats.nt:
            stats.nt.add(h)
            if len(stats.samples) < 3:
                stats.samples.append(spec)
    return info


def _run_given(sc, tier, seed_value, n_examples, stats, shrink_budget, deadline=None):
    import hypothesis
    from hypothesis import HealthCheck, Phase, given, settings

    state = {"first_fail": None, "best": None}

    def test(spec):
        if state["first_fail"] is not None and (
            time.time() - state["first_fail"] > shrink_budget
        ):
            return  # shrink budget used up: let the shrinker run dry quickly
        if state["first_fail"] is None and deadline is not None and time.time() > deadline:
            stats.skipped_budget += 1  # budget of the whole run used up: inconclusive, never a violation
            return
        try:
            run_case(sc, spec, stats)
        except Violation as v:
            if state["first_fail"] is None:
                state["first_fail"] = time.time()
            state["best"] = (spec, str(v))
            raise

    strategy = sc.strategy(tier) if callable(sc.strategy) else sc.strategy
    st_settings = settings(
        max_examples=n_examples,
        database=None,
        deadline=None,
        derandomize=False,
        report_multiple_bugs=False,
        print_blob=False,
        suppress_health_check=list(HealthCheck),
        phases=[Phase.explicit, Phase.generate, Phase.target, Phase.shrink],
    )
    wrapped = hypothesis.seed(seed_value)(st_settings(given(strategy)(test)))
    try:
        wrapped()
    except HarnessError:
        raise
    except BaseException as e:  # noqa: BLE001 - Violation, Flaky, etc.
        if state["best"] is None:
            raise HarnessError(
                "hypothesis failed without a recorded violation in %s: %r\n%s"
                % (sc.name, e, traceback.format_exc())
            ) from e
    if state["best"] is not None:
        stats.violation = state["best"]


def _run_enumerated(sc, tier, shard, n_shards, stats, deadline=None):
    for i, spec in enumerate(sc.enumerate(tier)):
        if i % n_shards != shard:
            continue
        if deadline is not None and time.time() > deadline:
            stats.skipped_budget += 1
            continue
        try:
            run_case(sc, spec, stats)
        except Violation as v:
            stats.violation = (getattr(v, "spec_override", None) or spec, str(v))
            return


def _run_machine(sc, tier, seed_value, n_examples, stats, shrink_budget, deadline=None):
    """Hypothesis RuleBasedStateMachine sub-check. sc.machine(stats_hook) returns a machine
    class whose rules append [rule, args...] to self.trace and whose failures raise Violation."""
    import hypothesis
    from hypothesis import HealthCheck, settings
    from hypothesis.stateful import run_state_machine_as_test

    state = {"first_fail": None, "best": None}

    def on_end(trace, info, error):
        """Called by the machine's teardown (info: dict like an oracle result)."""
        if error is not None:
            if state["first_fail"] is None:
                state["first_fail"] = time.time()
            state["best"] = (trace, str(error))
            return
        if not trace:
            if deadline is not None and time.time() > deadline:
                stats.skipped_budget += 1
            return
        stats.evaluations += 1
        for lab in info.get("classes", ()):
            stats.classes[lab] += 1
        if info.get("nontrivial"):
            h = spec_hash(trace)
            if h not in stats.nt:
                stats.nt.add(h)
                if len(stats.samples) < 3:
                    stats.samples.append(trace)

    def expired():
        if state["first_fail"] is None:
            return deadline is not None and time.time() > deadline
        return time.time() - state["first_fail"] > shrink_budget

    machine_cls = sc.machine(on_end, expired)
    st_settings = settings(
        max_examples=n_examples,
        stateful_step_count=sc.steps[tier_index(tier)],
        database=None,
        deadline=None,
        report_multiple_bugs=False,
        print_blob=False,
        suppress_health_check=list(HealthCheck),
    )
    try:
        run_state_machine_as_test(
            hypothesis.seed(seed_value)(machine_cls), settings=st_settings
        )
    except HarnessError:
        raise
    except BaseException as e:  # noqa: BLE001
        if state["best"] is None:
            raise HarnessError(
                "state machine failed without a recorded violation in %s: %r\n%s"
                % (sc.name, e, traceback.format_exc())
            ) from e
    if state["best"] is not None:
        stats.violation = state["best"]


def _worker(prop_id, sc, tier, seed, shard, n_shards, conn, deadline=None):
    import warnings

    warnings.simplefilter("ignore")
    stats = Stats()
    t0 = time.time()
    ti = tier_index(tier)
    try:
        if sc.enumerate is not None:
            _run_enumerated(sc, tier, shard, n_shards, stats, deadline)
        elif sc.machine is not None:
            _run_machine(
                sc, tier, derive_seed(seed, prop_id, sc.name, shard),
                sc.examples[ti], stats, 60 if ti == 0 else 180, deadline,
            )
        else:
            _run_given(
                sc, tier, derive_seed(seed, prop_id, sc.name, shard),
                sc.examples[ti], stats, 60 if ti == 0 else 180, deadline,
            )
    except HarnessError as e:
        stats.harness_error = str(e)
    except BaseException as e:  # noqa: BLE001
        stats.harness_error = "worker crashed: %r\n%s" % (e, traceback.format_exc())
    stats.wall = time.time() - t0
    try:
        conn.send(stats.as_dict())
    finally:
        conn.close()


# ---------------------------------------------------------------- property runner


def assert_tree():
    """The checks must exercise the current working tree of the repository."""
    import importlib

    for mod in (
        "orquestra.quantum.circuits",
        "orquestra.quantum.operators",
        "orquestra.quantum.measurements",
        "orquestra.quantum.distributions",
        "orquestra.quantum.wavefunction",
        "orquestra.quantum.evolution",
        "orquestra.quantum.api",
        "orquestra.quantum.runners",
    ):
        m = importlib.import_module(mod)
        f = os.path.realpath(m.__file__)
        if not f.startswith(os.path.realpath(LIB_SRC) + os.sep):
            raise HarnessError(f"{mod} imported from {f}, expected under {LIB_SRC}")


def run_property(prop, tier, seed, only=None):
    """prop: module with PROPERTY_ID, SUBCHECKS, RULE, ASSUMPTIONS. Returns exit code."""
    t0 = time.time()
    pid = prop.PROPERTY_ID
    ti = tier_index(tier)
    ctx = multiprocessing.get_context("fork")
    tasks = []
    os.environ["VERIF_SEED_EFFECTIVE"] = str(seed)
    for sc in prop.SUBCHECKS:
        if only and sc.name not in only:
            continue
        if tier not in sc.tiers:
            continue
        n_shards = sc.shards[ti]
        for shard in range(n_shards):
            tasks.append((sc, shard, n_shards))
    # first shard of every sub-check first (so that a run that uses up its budget has explored every sub-check), then longest first
    tasks.sort(key=lambda t: (t[1] != 0, -t[0].examples[ti]))
    try:
        budget = float(os.environ.get("VERIF_BUDGET_S") or BUDGET_S[ti])
    except ValueError:
        budget = BUDGET_S[ti]
    deadline = t0 + budget
    pending = list(tasks)
    running = []  # (proc, conn, sc, shard, kill_at)
    results = collections.defaultdict(list)
    timeouts = collections.Counter()
    while pending or running:
        while pending and len(running) < N_CORES:
            sc, shard, n_shards = pending.pop(0)
            parent, child = ctx.Pipe(duplex=False)
            p = ctx.Process(
                target=_worker, args=(pid, sc, tier, seed, shard, n_shards, child, deadline)
            )
            p.start()
            child.close()
            running.append((p, parent, sc, shard, max(time.time(), min(time.time() + sc.timeout[ti], deadline)) + 240))
        still = []
        for p, conn, sc, shard, kill_at in running:
            if conn.poll(0.02):
                try:
                    results[sc.name].append(conn.recv())
                    if os.environ.get("VERIF_STOP_AT_FIRST_VIOLATION") and results[sc.name][-1].get("violation"):
                        # screening mode (tools/reeval_seeded.py): one violation answers the question, skip what has not started
                        pending = []
                except EOFError:
                    results[sc.name].append(
                        dict(Stats().as_dict(), harness_error="worker died (EOF)")
                    )
                p.join()
                conn.close()
            elif not p.is_alive():
                # finished between poll and now, or died
                if conn.poll(0.2):
                    results[sc.name].append(conn.recv())
                else:
                    results[sc.name].append(
                        dict(Stats().as_dict(), harness_error="worker died silently")
                    )
                p.join()
                conn.close()
            elif time.time() > kill_at:
                p.kill()
                p.join()
                conn.close()
                timeouts[sc.name] += 1
            else:
                still.append((p, conn, sc, shard, kill_at))
        running = still
    return _report(prop, tier, seed, results, timeouts, time.time() - t0, only)


def _write_replay(pid, sub, spec, message):
    d = os.environ.get("VERIF_REPLAY_DIR") or os.path.join(VERIF_DIR, "replays")
    os.makedirs(d, exist_ok=True)
    h = "%016x" % spec_hash([sub, spec])
    path = os.path.join(d, f"{pid}_{sub}_{h[:10]}.json")
    with open(path, "w") as f:
        json.dump(
            {"property": pid, "subcheck": sub, "spec": spec, "message": message},
            f, indent=1, default=repr,
        )
    return path


def _report(prop, tier, seed, results, timeouts, wall, only):
    pid = prop.PROPERTY_ID
    total_eval = 0
    nt_all = set()
    per_sub = {}
    violations = []
    harness_errors = []
    known = collections.Counter()
    samples = []
    classes = collections.Counter()
    warnings_ = []
    vacuous = []
    for sc in prop.SUBCHECKS:
        if only and sc.name not in only:
            continue
        if tier not in sc.tiers:
            continue
        rs = results.get(sc.name, [])
        ev = sum(r["evaluations"] for r in rs)
        nts = set()
        cl = collections.Counter()
        inc = collections.Counter()
        inc_ex = []
        for r in rs:
            nts |= r["nt"]
            cl.update(r["classes"])
            inc.update(r["inconclusive"])
            inc_ex.extend(r["inconclusive_examples"][:2])
            known.update(r["known"])
            if r["violation"]:
                violations.append((sc.name, r["violation"][0], r["violation"][1]))
            if r["harness_error"]:
                harness_errors.append((sc.name, r["harness_error"]))
            for s in r["samples"]:
                if len([x for x in samples if x["subcheck"] == sc.name]) < 2:
                    samples.append({"subcheck": sc.name, "case": s})
        conclusive = ev - sum(inc.values())
        per_sub[sc.name] = {
            "evaluations": ev,
            "conclusive": conclusive,
            "distinct_nontrivial": len(nts),
            "rule": sc.rule,
            "classes": dict(cl),
            "inconclusive": dict(inc),
            "inconclusive_examples": inc_ex[:3],
            "exhaustive": bool(sc.exhaustive),
            "shards": len(rs),
            "shard_timeouts": timeouts.get(sc.name, 0),
            "skipped_after_budget": sum(r.get("skipped_budget", 0) for r in rs),
            "wall_s": round(max([r["wall"] for r in rs] or [0.0]), 2),
        }
        total_eval += ev
        nt_all |= {(sc.name, h) for h in nts}
        for k, v in cl.items():
            classes[sc.name + ":" + k] += v
        if sum(r.get("skipped_budget", 0) for r in rs):
            warnings_.append(f"{sc.name}: wall-clock budget used up, {sum(r.get('skipped_budget', 0) for r in rs)} generated cases not evaluated")
        if conclusive == 0 and not any(r["violation"] for r in rs):
            if set(inc) == {"atheris_unavailable"}:
                warnings_.append(f"{sc.name}: atheris could not be imported (run tools/setup.py); coverage-guided campaigns skipped")
            else:
                vacuous.append(sc.name)
        for lab in getattr(sc, "expected_classes", ()):
            if cl.get(lab, 0) == 0:
                warnings_.append(f"{sc.name}: class '{lab}' empty in this run")
    # known-finding lines
    for fid, n in sorted(known.items()):
        rec = finding(fid) or {}
        print(
            f"KNOWN-FINDING: property={pid} {fid} {rec.get('what', '')} "
            f"[reproduced on {n} probe inputs]"
        )
    code = 0
    replay_paths = []
    for sub, spec, msg in violations:
        path = _write_replay(pid, sub, spec, msg)
        replay_paths.append(path)
        print(f"VIOLATION property={pid} replay={path}")
        print(f"  subcheck={sub}: {msg}")
        print(f"  case={json.dumps(spec, default=repr)[:600]}")
        code = 1
    if harness_errors and code == 0:
        code = 2
    if vacuous and code == 0:
        code = 2
    for sub, err in harness_errors:
        print(f"HARNESS-ERROR property={pid} subcheck={sub}\n{err}", file=sys.stderr)
    for sub in vacuous:
        print(f"HARNESS-ERROR property={pid} subcheck={sub}: no conclusive case",
              file=sys.stderr)
    evidence = {
        "property_id": pid,
        "tier": tier,
        "seed": int(seed),
        "level": "exploration",
        "coverage": {
            "evaluations": total_eval,
            "distinct_nontrivial": len(nt_all),
            "rule": prop.RULE,
            "samples": samples[:12],
            "subchecks": per_sub,
            "classes": dict(classes),
            "known_findings_reproduced": dict(known),
            "warnings": warnings_,
            "exhaustive": False,
            "exhaustive_subchecks": [s.name for s in prop.SUBCHECKS if s.exhaustive],
        },
        "assumptions": list(prop.ASSUMPTIONS),
        "wall_s": round(wall, 2),
        "violations": len(violations),
    }
    if not only and not os.environ.get("VERIF_NO_EVIDENCE"):
        os.makedirs(os.path.join(VERIF_DIR, "evidence"), exist_ok=True)
        with open(os.path.join(VERIF_DIR, "evidence", f"{pid}.json"), "w") as f:
            json.dump(evidence, f, indent=1, default=repr)
    print(
        f"{pid} tier={tier} seed={seed} evaluations={total_eval} "
        f"distinct_nontrivial={len(nt_all)} violations={len(violations)} "
        f"wall={wall:.1f}s exit={code}"
    )
    return code


def replay(prop, path):
    rec = json.load(open(path))
    pid = prop.PROPERTY_ID
    sc = next((s for s in prop.SUBCHECKS if s.name == rec["subcheck"]), None)
    if sc is None:
        print(f"unknown subcheck {rec['subcheck']}", file=sys.stderr)
        return 2
    stats = Stats()
    try:
        if sc.machine is not None:
            sc.replay_trace(rec["spec"])
        else:
            run_case(sc, rec["spec"], stats)
    except Violation as v:
        print(f"VIOLATION property={pid} replay={path}")
        print(f"  subcheck={sc.name}: {v}")
        return 1
    except HarnessError as e:
        print(f"HARNESS-ERROR {e}", file=sys.stderr)
        return 2
    print(f"{pid} replay {path}: property held on this case")
    return 0
