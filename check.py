#!/venv/bin/python
"""CLI:  check.py <Cxx> [--tier quick|thorough] [--seed N] [--replay FILE] [--only sub,sub]

Exit 0: property held on everything explored (KNOWN-FINDING lines allowed).
Exit 1: "VIOLATION property=<id> replay=<path>" printed.
Exit 2: harness error / no conclusive case (never a VIOLATION line).
"""
import argparse
import importlib
import os
import sys

HERE = os.path.dirname(os.path.abspath(__file__))


def main():
    ap = argparse.ArgumentParser()
    ap.add_argument("prop")
    ap.add_argument("--tier", default=os.environ.get("VERIF_TIER") or "quick",
                    choices=["quick", "thorough"])
    ap.add_argument("--seed", type=int, default=None)
    ap.add_argument("--replay", default=None)
    ap.add_argument("--only", default=None)
    args = ap.parse_args()

    if os.environ.get("PYTHONHASHSEED") != "0":
        os.environ["PYTHONHASHSEED"] = "0"
        os.execv(sys.executable, [sys.executable] + sys.argv)

    seed = args.seed
    if seed is None:
        try:
            seed = int(os.environ.get("VERIF_SEED", "1"))
        except ValueError:
            seed = 1

    root = os.environ.get("OQ_VERIF_ROOT", "/repo")
    sys.path.insert(0, os.path.join(root, "src"))
    sys.path.insert(0, HERE)
    deps = os.path.join(HERE, ".deps")
    if os.path.isdir(deps):
        sys.path.append(deps)
    os.chdir(HERE)
    import warnings

    warnings.simplefilter("ignore")
    from vlib import harness

    try:
        harness.assert_tree()
        prop = importlib.import_module("props." + args.prop)
    except harness.HarnessError as e:
        print(f"HARNESS-ERROR {e}", file=sys.stderr)
        return 2
    if args.replay:
        return harness.replay(prop, args.replay)
    only = set(args.only.split(",")) if args.only else None
    return harness.run_property(prop, args.tier, seed, only)


if __name__ == "__main__":
    try:
        code = main()
    except SystemExit:
        raise
    except BaseException as e:  # noqa: BLE001
        import traceback

        traceback.print_exc()
        print(f"HARNESS-ERROR {e!r}", file=sys.stderr)
        code = 2
    sys.stdout.flush()
    sys.exit(code)
