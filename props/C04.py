"""C04 - every view of a simulated state agrees on which qubit is which."""
import numpy as np
from hypothesis import strategies as st

from vlib import cgen, pgen, ref
from vlib.harness import SubCheck, must, require

PROPERTY_ID = "C04"
TECHNIQUE = 'property-based testing (Hypothesis) of asymmetric circuits against a numpy state-vector reference; every view compared with the same bit-numbering oracle'
RULE = (
    "Asymmetric circuits on n<=4 (5 thorough) qubits: X on a drawn subset (deterministic "
    "bits), rotations/entanglers on the remaining qubits; simulator seed and both sample-count "
    "regimes (< 2^n and > 2^n) drawn. Oracle: reference state from numpy embedding; tuple t <-> "
    "index sum t_q 2^(n-1-q). Non-trivial: n>=2 and a non-palindromic deterministic pattern "
    "(an endianness flip is observable). Distinct = distinct spec JSON. SWAPs between any two qubits route the "
    "deterministic bits around (roles tracked by the generator); a third of the cases add a request of 4096..70000 samples; "
    "small circuits are also simulated with free symbols and bound afterwards; wide_register repeats the oracle on 6..11 qubits "
    "with few-qubit operators reaching qubit >= 8."
)
ASSUMPTIONS = [
    "gate parameters are Python floats; widths <= 5",
    "sampled tuples are checked for support and deterministic positions, not for frequencies",
]

ONE_Q = ["RX", "RY", "PHASE", "RH", "H", "RZ", "T", "S", "SX", "U3", "GPi2"]
TWO_Q = ["CNOT", "CZ", "ISWAP", "SWAP", "XX", "YY", "ZZ", "XY", "MS", "CPHASE"]


@st.composite
def cases(draw, tier, wide=False):
    if wide:
        n = draw(st.sampled_from([6, 7, 8, 9, 9, 10] if tier == "quick" else [7, 8, 9, 9, 10, 10, 11]))
        det = [draw(st.sampled_from([0, 1, 1, 0, None])) for _ in range(n)]
        if all(d is not None for d in det):
            det[draw(st.integers(0, n - 1))] = None
        free = [q for q in range(n) if det[q] is None][:4]
        for q in range(n):
            if det[q] is None and q not in free:
                det[q] = 0
    else:
        n = draw(st.sampled_from([1, 2, 3, 3, 4, 4] if tier == "quick" else [1, 2, 3, 4, 4, 5, 5]))
        det = [draw(st.sampled_from([0, 1, None, None, None])) for _ in range(n)]
        free = [q for q in range(n) if det[q] is None]
    ops = [{"g": "X", "p": [], "mods": [], "q": [q]} for q in range(n) if det[q] == 1]
    det = list(det)
    n_swaps = 0
    for _ in range(draw(st.integers(0, 5))):
        if n >= 2 and draw(st.integers(0, 3)) == 0:
            # routing: a SWAP between any two qubits (deterministic or not) exchanges their roles; chains of SWAPs that
            # share a qubit compose to cyclic relabellings
            a, b = draw(st.permutations(list(range(n))))[:2]
            if n_swaps and draw(st.booleans()):
                a = ops[-1]["q"][1] if ops[-1]["g"] == "SWAP" and not ops[-1]["mods"] and len(ops[-1]["q"]) == 2 else a
                if a == b:
                    b = (a + 1) % n
            ops.append({"g": "SWAP", "p": [], "mods": [], "q": [a, b]})
            det[a], det[b] = det[b], det[a]
            free = [q for q in range(n) if det[q] is None][:4] if wide else [q for q in range(n) if det[q] is None]
            n_swaps += 1
            continue
        if not free:
            break
        if len(free) >= 3 and draw(st.integers(0, 2)) == 0:
            # three-qubit gates on arbitrarily ordered (incl. cyclically permuted) index tuples
            kind = draw(st.sampled_from(["ccx", "cswap", "ccry", "custom3", "ciswap"]))
            q = list(draw(st.permutations(free))[:3])
            g = {"ccx": {"g": "X", "p": [], "mods": [["c", 2]]}, "cswap": {"g": "SWAP", "p": [], "mods": [["c", 1]]},
                 "ccry": {"g": "RY", "p": [draw(cgen.angles())], "mods": [["c", 2]]},
                 "custom3": {"g": "custom", "k": 3, "mseed": draw(st.integers(0, 1000)), "p": [], "mods": []},
                 "ciswap": {"g": "ISWAP", "p": [], "mods": [["c", 1]]}}[kind]
            g["q"] = q
            ops.append(g)
            continue
        if len(free) >= 2 and draw(st.booleans()):
            nm = draw(st.sampled_from(TWO_Q))
            q = draw(st.permutations(free))[:2]
        else:
            nm = draw(st.sampled_from(ONE_Q))
            q = [draw(st.sampled_from(free))]
        ops.append({"g": nm, "p": [draw(cgen.angles()) for _ in range(cgen.TABLE[nm][1])], "mods": [], "q": list(q)})
    # gates that keep a basis state a basis state, on any qubit (deterministic and idle ones included)
    for _ in range(draw(st.sampled_from([0, 0, 1, 2, 3]))):
        nm = draw(st.sampled_from(["I", "I", "Delay", "Z", "S", "T", "PHASE", "RZ"]))
        g = {"g": nm, "p": [draw(cgen.angles()) for _ in range(cgen.TABLE[nm][1])], "mods": [], "q": [draw(st.integers(0, n - 1))]}
        ops.insert(draw(st.integers(0, len(ops))), g)
    # operators
    zterms = []
    small_support = draw(st.booleans())  # operators touching only a few qubits (each in its own term) as well as dense ones
    for _ in range(draw(st.integers(1, 4))):
        qs = draw(st.lists(st.integers(0, n - 1), unique=True, max_size=(1 if small_support else n)))
        zterms.append({"ops": [[q, "Z"] for q in sorted(qs)], "c": draw(pgen.coefs(zero=False, kinds=("int", "float")))})
    gterms = draw(st.lists(pgen.terms(max_q=n, zero=False), min_size=1, max_size=3))
    # operators that touch only two or three (deterministic) qubits, each in a term of its own
    dqs = [q for q in range(n) if det[q] is not None]
    zsmall = []
    if len(dqs) >= 2:
        for _ in range(6 if wide else 2):
            qs = draw(st.permutations(dqs))[: draw(st.integers(2, min(3, len(dqs))))]
            zsmall.append([[int(q), c] for q, c in zip(qs, [2, 3, 5])])
    # positions (operation, parameter) written as free symbols when the circuit is simulated symbolically and bound afterwards
    slots = [(i, j) for i, o in enumerate(ops) if o["g"] in cgen.TABLE and o["g"] != "U3" for j in range(len(o["p"]))]
    symbolised = draw(st.lists(st.sampled_from(slots), unique=True, max_size=3)) if (slots and not wide and n <= 4 and draw(st.integers(0, 2)) > 0) else []
    multi = [x for x in slots if len(ops[x[0]]["q"]) >= 2]
    if symbolised and multi and not any(x in multi for x in symbolised):
        symbolised = [draw(st.sampled_from(multi))] + list(symbolised)[:2]  # a symbolic multi-qubit gate whenever there is one
    return {
        "symbolised": [list(x) for x in symbolised],
        "zsmall": zsmall, "det_final": det,
        "n": n, "det": det, "ops": ops, "seed": draw(st.integers(0, 2 ** 31 - 1)),
        "ns_small": draw(st.integers(1, max(1, 2 ** n - 1))),
        "ns_large": draw(st.integers(2 ** n + 1, (4 * 2 ** n + 3) if not wide else 2 ** n + 40)),
        "zterms": zterms, "gterms": gterms,
        "ns_huge": draw(st.sampled_from([None, None, None, 4096, 5000, 10000, 70000])) if not wide else None,
    }


def _idx(t):
    return ref.basis_index(t)


def oracle(spec):
    from orquestra.quantum.circuits import Circuit
    from orquestra.quantum.operators import PauliSum, PauliTerm, get_expectation_value
    from orquestra.quantum.runners import SymbolicSimulator

    n, det = spec["n"], spec.get("det_final", spec["det"])
    c = Circuit([cgen.build_gate(o)(*o["q"]) for o in spec["ops"]], n)
    psi = np.zeros(2 ** n, dtype=complex)
    psi[0] = 1
    for o in spec["ops"]:
        psi = ref.embed_apply(cgen.ref_gate_matrix(o), o["q"], n, psi)
    probs = np.abs(psi) ** 2
    sim = SymbolicSimulator(seed=spec["seed"])
    wf = must(lambda: sim.get_wavefunction(c), "get_wavefunction")
    a = np.asarray(wf.amplitudes, dtype=complex).reshape(-1)
    require(ref.close(a, psi, 1e-9), "state vector differs from reference")

    # the same circuit with some parameters left symbolic: simulate, then bind the values
    if spec.get("symbolised"):
        import copy as _copy
        import sympy as _sp

        sym_ops = _copy.deepcopy(spec["ops"])
        vals = {}
        for t_, (i_, j_) in enumerate(spec["symbolised"]):
            vals[_sp.Symbol("s%d" % t_)] = spec["ops"][i_]["p"][j_]
            sym_ops[i_]["p"][j_] = ["sym", "s%d" % t_]
        cs = Circuit([cgen.build_gate(o)(*o["q"]) for o in sym_ops], n)
        wfs = must(lambda: sim.get_wavefunction(cs), "get_wavefunction (circuit with free symbols)")
        wfb = must(lambda: wfs.bind(vals), "Wavefunction.bind")
        ab = np.asarray(wfb.amplitudes, dtype=complex).reshape(-1)
        require(ref.close(ab, psi, 1e-8), lambda: f"state vector simulated symbolically and bound afterwards differs from the reference, max|d|={ref.maxdiff(ab, psi):.3g}")

    # exact outcome distribution
    dist = must(lambda: sim.get_measurement_outcome_distribution(c, None), "exact distribution").distribution_dict
    require(len(dist) == 2 ** n, lambda: f"exact distribution has {len(dist)} outcomes, expected {2 ** n}")
    for t, p in dist.items():
        tt = tuple(int(b) for b in t)
        require(len(tt) == n, lambda: f"distribution key {t!r} has wrong length")
        require(abs(p - probs[_idx(tt)]) <= 1e-9, lambda: f"exact distribution: outcome {t!r} has p={p}, expected {probs[_idx(tt)]}")

    # Z-type exact expectation = average eigenvalue under the exact distribution
    zop = PauliSum([pgen.build_term(t) for t in spec["zterms"]])
    e = must(lambda: sim.get_exact_expectation_values(c, zop), "get_exact_expectation_values")
    expected = 0.0
    for t in spec["zterms"]:
        qs = [q for q, _ in t["ops"]]
        expected += pgen.coef(t["c"]) * sum(
            float(p) * np.prod([1 - 2 * int(k[q]) for q in qs]) for k, p in dist.items()
        )
    ref_e = sum(
        pgen.coef(t["c"]) * sum(probs[i] * np.prod([1 - 2 * ((i >> (n - 1 - q)) & 1) for q, _ in t["ops"]]) for i in range(2 ** n))
        for t in spec["zterms"]
    )
    scale = max(1.0, sum(abs(pgen.coef(t["c"])) for t in spec["zterms"]))
    require(abs(e - expected) <= 1e-9 * scale, lambda: f"exact Z expectation {e} != average over exact distribution {expected}")
    require(abs(e - ref_e) <= 1e-9 * scale, lambda: f"exact Z expectation {e} != reference {ref_e}")
    # general Pauli operator: quadratic form with qubit 0 leftmost
    gop = PauliSum([pgen.build_term(t) for t in spec["gterms"]])
    Gpsi = np.zeros_like(psi)
    for key, cf in pgen.canon_sum({"terms": spec["gterms"]}).items():
        v = psi
        for q, letter in key:
            v = ref.embed_apply(ref.PAULI[letter], [q], n, v)
        Gpsi = Gpsi + cf * v
    ge = must(lambda: get_expectation_value(gop, wf), "get_expectation_value")
    gref = np.vdot(psi, Gpsi)
    gscale = max(1.0, sum(abs(pgen.coef(t["c"])) for t in spec["gterms"]))
    require(abs(ge - gref) <= 1e-9 * gscale, lambda: f"expectation of {gop!r} is {ge}, quadratic form gives {gref}")

    dq = [q for q in range(n) if det[q] is not None]
    regimes = [("small", spec["ns_small"]), ("large", spec["ns_large"])]
    if spec.get("ns_huge"):
        regimes.append(("thousands", spec["ns_huge"]))
    for regime, ns in regimes:
        m = must(lambda: sim.run_and_measure(c, ns), f"run_and_measure({ns})")
        require(len(m.bitstrings) == ns, lambda: f"{regime}: {len(m.bitstrings)} shots returned for {ns}")
        for b in m.bitstrings:
            require(len(b) == n, lambda: f"{regime}: sampled tuple {b!r} has wrong length")
            require(probs[_idx(b)] > 1e-12, lambda: f"{regime}: sampled outcome {tuple(b)!r} has zero exact probability")
            require(all(int(b[q]) == det[q] for q in dq), lambda: f"{regime}: sampled {tuple(b)!r} contradicts deterministic bits {det}")
        counts = m.get_counts()
        require(sum(counts.values()) == ns, "counts do not sum to the number of shots")
        for k in counts:
            require(len(k) == n and all(int(k[q]) == det[q] for q in dq), lambda: f"{regime}: count string {k!r} contradicts deterministic bits {det}")
        sd = must(lambda: sim.get_measurement_outcome_distribution(c, ns), "sampled distribution").distribution_dict
        for k in sd:
            kk = tuple(int(x) for x in k)
            require(len(kk) == n and probs[_idx(kk)] > 1e-12 and all(kk[q] == det[q] for q in dq), lambda: f"{regime}: sampled distribution key {k!r} impossible")
        if dq:
            terms = []
            vals = []
            for j, t in enumerate(spec["zterms"]):
                qs = [q for q, _ in t["ops"] if q in dq] or [dq[j % len(dq)]]
                cf = pgen.coef(t["c"])
                terms.append(PauliTerm({q: "Z" for q in qs}, cf))
                vals.append(cf * np.prod([1 - 2 * det[q] for q in qs]))
            ev = must(lambda: m.get_expectation_values(PauliSum(terms)), "Measurements.get_expectation_values")
            for got, want in zip(ev.values, vals):
                require(abs(got - want) <= 1e-12 * max(1, abs(want)), lambda: f"{regime}: measured expectation {got} != coefficient*eigenvalue {want} on deterministic qubits")
        for small in spec.get("zsmall", []):
            op = PauliSum([PauliTerm({q: "Z"}, cf) for q, cf in small])
            ev = must(lambda: m.get_expectation_values(op), "Measurements.get_expectation_values (few-qubit operator)")
            want = [cf * (1 - 2 * det[q]) for q, cf in small]
            require(all(abs(g_ - w_) <= 1e-12 for g_, w_ in zip(ev.values, want)) and len(ev.values) == len(want),
                    lambda: f"{regime}: measured expectation values {list(ev.values)} of {op!r} != coefficient*eigenvalue {want} (deterministic bits {det})")
            if regime == "small":
                ex = must(lambda: sim.get_exact_expectation_values(c, op), "get_exact_expectation_values (few-qubit operator)")
                require(abs(ex - sum(want)) <= 1e-9 * 10, lambda: f"exact expectation {ex} of {op!r} != {sum(want)}")
    pattern = [det[q] for q in range(n)]
    nontrivial = n >= 2 and any(x is not None for x in pattern) and pattern != pattern[::-1]
    cl = ["small_sample_branch", "large_sample_branch"] + (["thousands_of_samples"] if spec.get("ns_huge") else [])
    if any(len(o["q"]) == 2 for o in spec["ops"]):
        cl.append("entangled")
    if any(len(o["q"]) == 3 for o in spec["ops"]):
        cl.append("three_qubit_gate")
        if any(len(o["q"]) == 3 and o["q"] != sorted(o["q"]) and o["q"] != sorted(o["q"], reverse=True) for o in spec["ops"]):
            cl.append("three_qubit_gate_cyclic_order")
    if n >= 9:
        cl.append("width>=9")
    if spec.get("symbolised"):
        cl.append("simulated_with_free_symbols")
        if any(len(spec["ops"][i_]["q"]) >= 2 and spec["ops"][i_]["q"] != sorted(spec["ops"][i_]["q"]) for i_, _ in spec["symbolised"]):
            cl.append("symbolic_gate_on_permuted_tuple")
    if n >= 9 and any(max(q for q, _ in small) >= 8 for small in spec.get("zsmall", [])):
        cl.append("few_qubit_operator_reaching_qubit>=8")
    swaps = [o["q"] for o in spec["ops"] if o["g"] == "SWAP" and not o["mods"]]
    if any(set(x) & set(y) and set(x) != set(y) for x, y in zip(swaps, swaps[1:])):
        cl.append("swap_chain")
    used = [q for o in spec["ops"] if o["g"] not in ("I", "Delay") for q in o["q"]]
    if any(o["g"] in ("I", "Delay") for o in spec["ops"]) and (not used or max(used) < n - 1):
        cl.append("top_qubit_idle_or_identity_only")
    return {"classes": cl, "nontrivial": nontrivial}


SUBCHECKS = [
    SubCheck("views_agree", oracle, strategy=cases, examples=(200, 1200), shards=(6, 16), fork_timeout=30,
             rule=RULE),
    SubCheck("wide_register", oracle, strategy=lambda t: cases(t, wide=True), examples=(11, 100), shards=(8, 16), fork_timeout=120,
             rule="the same oracle on registers of 6..10 (11 thorough) qubits (at most 4 non-deterministic qubits, operators on any of the qubits, state-vector reference): numbering agrees on wide registers too"),
]
