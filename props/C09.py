"""C09 - operator-to-matrix conversions agree with the operator's definition."""
import itertools

import numpy as np
from hypothesis import strategies as st

from vlib import pgen, ref
from vlib.harness import SubCheck, must, must_raise, require

PROPERTY_ID = "C09"
TECHNIQUE = 'exhaustive enumeration of padded Pauli strings + property-based testing (Hypothesis) against Kronecker-product definitions; matrix round trips'
RULE = (
    "Exhaustive: all Pauli strings on <= 3 qubits (incl. identities) x register widths own..own+2 "
    "with a complex coefficient. Random: terms and sums on <= 5 qubits with gaps, constants, complex "
    "coefficients, the zero operator and the empty sum; random complex / Hermitian / zero / "
    "identity-padded 2^n x 2^n matrices n in 1..3 (4 thorough); random normalised states. Oracle: "
    "Kronecker-product definition with qubit 0 leftmost (numpy), adjoint, bit-reversal permutation, "
    "quadratic form. Non-trivial: a string containing Y together with a gap or padding; a matrix "
    "with a non-zero Y component."
)
ASSUMPTIONS = [
    "Hermiticity test compared only for simplified operators whose coefficients have imaginary part exactly 0 or >= 1e-3 in magnitude (away from the library's tolerance edge)",
    "1x1 matrices (n = 0) are not an n-qubit operator in get_pauliop_from_matrix's sense and are not generated",
    "dense 2^n reference: widths <= 7",
]


def _mat(canon, n):
    return ref.canon_matrix(canon, n)


def enum_strings(tier):
    for k in range(0, 4):
        for s in itertools.product("IXYZ", repeat=k):
            ops = [[i, p] for i, p in enumerate(s) if p != "I"]
            w = max([q + 1 for q, _ in ops] or [0])
            for n in range(max(1, w), max(1, w) + 3):
                yield {"ops": ops, "n": n, "c": ["c", 1.5, -0.5], "as_sum": (k + n) % 2 == 0}


def o_sparse_exh(spec):
    from orquestra.quantum.operators import PauliSum, get_sparse_operator

    t = pgen.build_term(spec)
    op = PauliSum([t]) if spec["as_sum"] else t
    n = spec["n"]
    M = must(lambda: get_sparse_operator(op, n_qubits=n), "get_sparse_operator").toarray()
    R = _mat(pgen.canon_term(spec), n)
    require(M.shape == (2 ** n, 2 ** n), lambda: f"shape {M.shape} for n={n}")
    require(ref.close(M, R, 1e-12), lambda: f"sparse matrix differs from the tensor-product definition, max|d|={ref.maxdiff(M, R):.3g}")
    letters = [p for _, p in spec["ops"]]
    w = max([q + 1 for q, _ in spec["ops"]] or [0])
    gap = len(spec["ops"]) < w
    return {"nontrivial": "Y" in letters and (gap or n > w), "classes": (["padded"] if n > w else []) + (["gap"] if gap else [])}


@st.composite
def op_cases(draw, tier):
    kind = draw(st.sampled_from(["term", "sum", "sum", "sum", "empty", "zero"]))
    if kind == "term":
        o = {"t": draw(pgen.terms(max_q=5))}
    elif kind == "sum":
        o = {"s": draw(pgen.sums(max_q=5, max_terms=5))}
    elif kind == "empty":
        o = {"s": {"terms": []}}
    else:
        o = {"s": {"terms": [{"ops": draw(pgen.terms(max_q=4))["ops"], "c": 0}]}}
    return {"op": o, "pad": draw(st.integers(0, 2)), "sseed": draw(st.integers(0, 10 ** 6))}


def o_ops(spec):
    from orquestra.quantum.operators import (PauliSum, PauliTerm, expectation, get_expectation_value,
                                             get_sparse_operator, hermitian_conjugated, is_hermitian,
                                             reverse_qubit_order)
    from orquestra.quantum.wavefunction import Wavefunction

    op = pgen.build_operand(spec["op"])
    can = pgen.canon_operand(spec["op"])
    w = pgen.canon_width({k: v for k, v in can.items()})
    require(op.n_qubits <= max(w, op.n_qubits), "n_qubits")
    n = max(1, max(w, op.n_qubits) + spec["pad"])
    scale = max(1.0, pgen.canon_norm(can))
    R = _mat(can, n)
    M = must(lambda: get_sparse_operator(op, n_qubits=n), "get_sparse_operator").toarray()
    require(M.shape == R.shape and np.max(np.abs(M - R)) <= 1e-10 * scale, lambda: f"sparse matrix differs from definition on {n} qubits, max|d|={ref.maxdiff(M, R):.3g}")
    # Hermitian conjugate
    hc = must(lambda: hermitian_conjugated(op), "hermitian_conjugated")
    H = _mat(pgen.canon_of(hc), n)
    require(np.max(np.abs(H - R.conj().T)) <= 1e-10 * scale, "hermitian_conjugated does not denote the conjugate transpose")
    # Hermiticity test on the simplified operator
    simp = op if isinstance(op, PauliTerm) else must(op.simplify, "simplify")
    scan = pgen.canon_of(simp)
    Rs = _mat(scan, n)
    herm_ref = bool(np.max(np.abs(Rs - Rs.conj().T)) <= 1e-8)
    edge = any(0 < abs(complex(v).imag) < 1e-3 for v in scan.values())
    if not edge:
        got = must(lambda: is_hermitian(simp), "is_hermitian")
        require(bool(got) == herm_ref, lambda: f"is_hermitian says {got}, matrix says {herm_ref} for {simp!r}")
    # qubit order reversal
    r1 = must(lambda: reverse_qubit_order(op, n_qubits=n), "reverse_qubit_order")
    perm = ref.bit_reverse_perm(n)
    R1 = _mat(pgen.canon_of(r1), n)
    require(np.max(np.abs(R1 - R[np.ix_(perm, perm)])) <= 1e-10 * scale, "reverse_qubit_order is not the bit-reversal permutation of the matrix")
    r2 = must(lambda: reverse_qubit_order(r1, n_qubits=n), "reverse_qubit_order twice")
    R2 = _mat(pgen.canon_of(r2), n)
    require(np.max(np.abs(R2 - R)) <= 1e-10 * scale, "reversing the qubit order twice is not the identity")
    # without an explicit width the operator's own width is the register: one reversal is the bit reversal on that register
    if not isinstance(op, (int, float, complex)) and op.n_qubits >= 1:
        w0 = op.n_qubits
        require(w0 >= max([q + 1 for k, v in can.items() if abs(v) > 0 for q, _ in k] or [0]), "n_qubits smaller than the support")
        r0 = must(lambda: reverse_qubit_order(op), "reverse_qubit_order (default width)")
        want0 = {}
        for k, v in can.items():
            kk = tuple(sorted((w0 - 1 - q, p) for q, p in k))
            want0[kk] = want0.get(kk, 0) + v
        d0 = pgen.canon_diff(pgen.canon_of(r0), want0)
        require(d0 <= 1e-8 + 1e-10 * scale, lambda: f"reverse_qubit_order without a width is not the bit reversal on the operator's own {w0} qubits: {r0!r} for {op!r}")
    # expectation values
    rs = np.random.RandomState(spec["sseed"])
    psi = rs.normal(size=2 ** n) + 1j * rs.normal(size=2 ** n)
    psi = psi / np.linalg.norm(psi)
    want = np.vdot(psi, R @ psi)
    ev = must(lambda: get_expectation_value(op, Wavefunction(psi.copy())), "get_expectation_value")
    require(abs(ev - want) <= 1e-9 * scale, lambda: f"get_expectation_value {ev} != quadratic form {want}")
    ev2 = must(lambda: expectation(get_sparse_operator(op, n_qubits=n), psi.copy()), "expectation(sparse, state)")
    require(abs(ev2 - want) <= 1e-9 * scale, lambda: f"expectation {ev2} != quadratic form {want}")
    # the other documented forms of a state: a column vector, and a density matrix (pure or a mixture of two states)
    import scipy.sparse as _sp

    Sop = get_sparse_operator(op, n_qubits=n)
    ev_col = must(lambda: expectation(Sop, psi.copy().reshape(-1, 1)), "expectation(sparse, column vector)")
    require(abs(ev_col - want) <= 1e-9 * scale, lambda: f"expectation with a column vector {ev_col} != quadratic form {want}")
    rho = np.outer(psi, psi.conj())
    ev_rho = must(lambda: expectation(Sop, _sp.csc_matrix(rho)), "expectation(sparse, density matrix)")
    require(abs(ev_rho - want) <= 1e-9 * scale, lambda: f"expectation with the density matrix of the state {ev_rho} != quadratic form {want}")
    phi = rs.normal(size=2 ** n) + 1j * rs.normal(size=2 ** n)
    phi = phi / np.linalg.norm(phi)
    mix = 0.3 * rho + 0.7 * np.outer(phi, phi.conj())
    want_mix = 0.3 * want + 0.7 * np.vdot(phi, R @ phi)
    ev_mix = must(lambda: expectation(Sop, _sp.csr_matrix(mix)), "expectation(sparse, mixed density matrix)")
    require(abs(ev_mix - want_mix) <= 1e-9 * scale, lambda: f"expectation with a mixed density matrix {ev_mix} != trace(rho M) = {want_mix}")
    ev3 = must(lambda: get_expectation_value(op, Wavefunction(psi.copy()), reverse_operator=True), "get_expectation_value(reverse)")
    want3 = np.vdot(psi, R[np.ix_(perm, perm)] @ psi)
    require(abs(ev3 - want3) <= 1e-9 * scale, lambda: f"reversed expectation {ev3} != {want3}")
    keys = [k for k, v in can.items() if v != 0]
    hasY = any(p == "Y" for k in keys for _, p in k)
    gap = any(len(k) < (max(q for q, _ in k) + 1) for k in keys if k)
    cl = []
    if not can or all(v == 0 for v in can.values()):
        cl.append("zero_operator")
    if () in can:
        cl.append("constant_term")
    if herm_ref:
        cl.append("hermitian")
    if spec["pad"]:
        cl.append("padded")
    return {"classes": cl, "nontrivial": hasY and (gap or spec["pad"] > 0)}


@st.composite
def mat_cases(draw, tier):
    n = draw(st.integers(1, 3 if tier == "quick" else 4))
    return {"n": n, "mseed": draw(st.integers(0, 10 ** 6)),
            "kind": draw(st.sampled_from(["complex", "complex", "hermitian", "zero", "pad_last", "real", "single", "diagonal", "integer", "sparse"])),
            "layout": draw(st.sampled_from(["list", "list", "c128", "fortran", "c64", "strided"]))}


def _matrix(spec):
    n = spec["n"]
    rs = np.random.RandomState(spec["mseed"])
    d = 2 ** n
    A = rs.normal(size=(d, d)) + 1j * rs.normal(size=(d, d))
    k = spec["kind"]
    if k == "hermitian":
        A = A + A.conj().T
    elif k == "zero":
        A = np.zeros((d, d), dtype=complex)
    elif k == "pad_last":
        B = rs.normal(size=(d // 2, d // 2)) + 1j * rs.normal(size=(d // 2, d // 2))
        A = np.kron(B, np.eye(2))
    elif k == "real":
        A = rs.normal(size=(d, d)).astype(complex)
    elif k == "single":
        A = np.zeros((d, d), dtype=complex)
        A[rs.randint(d), rs.randint(d)] = 1.0
    elif k == "diagonal":  # exactly diagonal, not symmetric under bit reversal
        A = np.diag(rs.normal(size=d) + 1j * rs.normal(size=d) * rs.randint(2))
    elif k == "integer":
        A = (rs.randint(-5, 6, size=(d, d)) + 1j * rs.randint(-2, 3, size=(d, d)) * rs.randint(2)).astype(complex)
    elif k == "sparse":
        A = A * (rs.uniform(size=(d, d)) < 0.25)
    return A


def _laid_out(A, layout):
    """The same matrix in the containers / memory layouts a caller may hold it in."""
    if layout == "list":
        return A.tolist(), 1e-9
    if layout == "c128":
        return np.array(A, dtype=np.complex128), 1e-9
    if layout == "fortran":
        return np.asfortranarray(A), 1e-9
    if layout == "c64":
        return A.astype(np.complex64), 1e-5
    if layout == "strided":
        big = np.zeros((2 * A.shape[0], 2 * A.shape[1]), dtype=complex)
        big[::2, ::2] = A
        return big[::2, ::2], 1e-9
    raise ValueError(layout)


def o_matrix(spec):
    from orquestra.quantum.operators import get_sparse_operator
    from orquestra.quantum.operators._utils import get_pauliop_from_matrix

    A = _matrix(spec)
    n = spec["n"]
    arg, tol = _laid_out(A, spec.get("layout", "list"))
    if spec.get("layout") == "c64":
        A = np.asarray(arg, dtype=complex)  # the single-precision values are the input
        tol = 1e-5
    before = np.array(arg, dtype=complex).copy()
    op = must(lambda: get_pauliop_from_matrix(arg), "get_pauliop_from_matrix")
    require(np.array_equal(np.array(arg, dtype=complex), before), "get_pauliop_from_matrix modified its input")
    B = must(lambda: get_sparse_operator(op, n_qubits=n), "get_sparse_operator").toarray()
    require(ref.close(B, A, tol), lambda: f"Pauli expansion does not reproduce the matrix ({spec.get('layout')} input), max|d|={ref.maxdiff(B, A):.3g}")
    # the expansion itself is the trace formula
    R = ref.canon_matrix(pgen.canon_of(op), n)
    require(ref.close(R, A, tol), "expansion coefficients do not denote the matrix")
    ycomp = abs(np.trace(ref.pauli_string_matrix({n - 1: "Y"}, n) @ A)) > 1e-9 or abs(np.trace(ref.pauli_string_matrix({0: "Y"}, n) @ A)) > 1e-9
    return {"classes": ["kind:" + spec["kind"], "n:%d" % n, "layout:" + spec.get("layout", "list")], "nontrivial": bool(ycomp) or spec["kind"] in ("complex", "hermitian")}


# ---------------------------------------------------------------- wide registers (matrix-free reference)


def _apply_canon(canon, n, v):
    out = np.zeros_like(v)
    for key, cf in canon.items():
        w = v
        for q, letter in key:
            w = ref.embed_apply(ref.PAULI[letter], [q], n, w)
        out = out + cf * w
    return out


@st.composite
def wide_cases(draw, tier):
    top = draw(st.integers(7, 10 if tier == "quick" else 12))
    ts = []
    letters = draw(st.sampled_from(["XYZ", "XYZ", "Z"]))
    for _ in range(draw(st.integers(1, 3))):
        qs = draw(st.lists(st.integers(0, top), unique=True, min_size=1, max_size=4))
        if draw(st.booleans()):
            qs = sorted(set(qs) | {top})
        ts.append({"ops": [[q, draw(st.sampled_from(letters))] for q in sorted(qs)],
                   "c": draw(pgen.coefs(zero=False))})
    if not any(q == top for t in ts for q, _ in t["ops"]):
        ts[0]["ops"] = sorted(ts[0]["ops"] + [[top, "Y" if letters != "Z" else "Z"]])
    as_term = len(ts) == 1 and draw(st.booleans())
    return {"op": {"t": ts[0]} if as_term else {"s": {"terms": ts}}, "pad": draw(st.integers(0, 1)), "sseed": draw(st.integers(0, 10 ** 6))}


def o_wide(spec):
    from orquestra.quantum.operators import (expectation, get_expectation_value, get_sparse_operator,
                                             hermitian_conjugated, reverse_qubit_order)
    from orquestra.quantum.wavefunction import Wavefunction

    op = pgen.build_operand(spec["op"])
    can = pgen.canon_operand(spec["op"])
    n = pgen.canon_width(can) + spec["pad"]
    scale = max(1.0, pgen.canon_norm(can))
    S = must(lambda: get_sparse_operator(op, n_qubits=n), "get_sparse_operator")
    require(S.shape == (2 ** n, 2 ** n), lambda: f"shape {S.shape} for n={n}")
    rs = np.random.RandomState(spec["sseed"])
    perm = ref.bit_reverse_perm(n)
    r1 = must(lambda: reverse_qubit_order(op, n_qubits=n), "reverse_qubit_order")
    S1 = must(lambda: get_sparse_operator(r1, n_qubits=n), "get_sparse_operator(reversed)")
    hc = must(lambda: hermitian_conjugated(op), "hermitian_conjugated")
    hcan = pgen.canon_of(hc)
    for i in range(3):
        v = rs.normal(size=2 ** n) + 1j * rs.normal(size=2 ** n)
        if i == 0:
            v = np.zeros(2 ** n, dtype=complex)
            v[rs.randint(2 ** n)] = 1
        v = v / np.linalg.norm(v)
        want = _apply_canon(can, n, v)
        got = S @ v
        require(np.max(np.abs(got - want)) <= 1e-10 * scale, lambda: f"sparse matrix on {n} qubits acts differently from the tensor-product definition, max|d|={np.max(np.abs(got - want)):.3g}")
        # bit reversal: (P M P) v = P M (P v)
        got1 = S1 @ v
        want1 = _apply_canon(can, n, v[perm])[perm]
        require(np.max(np.abs(got1 - want1)) <= 1e-10 * scale, "reverse_qubit_order is not the bit-reversal permutation of the matrix")
        # adjoint: <u, M v> = <M^dagger u, v>
        u = rs.normal(size=2 ** n) + 1j * rs.normal(size=2 ** n)
        lhs = np.vdot(u, want)
        rhs = np.vdot(_apply_canon(hcan, n, u), v)
        require(abs(lhs - rhs) <= 1e-9 * scale * np.linalg.norm(u), "hermitian_conjugated does not denote the conjugate transpose")
        ev = must(lambda: get_expectation_value(op, Wavefunction(v.copy())), "get_expectation_value")
        require(abs(ev - np.vdot(v, want)) <= 1e-9 * scale, lambda: f"get_expectation_value {ev} != quadratic form {np.vdot(v, want)}")
        ev2 = must(lambda: expectation(S, v.copy()), "expectation(sparse, state)")
        require(abs(ev2 - np.vdot(v, want)) <= 1e-9 * scale, lambda: f"expectation {ev2} != quadratic form")
    hasY = any(p == "Y" for k in can for _, p in k)
    zonly = all(p == "Z" for k in can for _, p in k)
    return {"classes": ["n:%d" % n] + (["z_type"] if zonly else []), "nontrivial": hasY or zonly}


SUBCHECKS = [
    SubCheck("sparse_exhaustive", o_sparse_exh, enumerate=enum_strings, exhaustive=True, shards=(2, 2),
             rule="all Pauli strings on <=3 qubits x widths own..own+2: get_sparse_operator == Kronecker definition"),
    SubCheck("operators", o_ops, strategy=op_cases, examples=(500, 2500), shards=(4, 12),
             rule="sparse matrix, Hermitian conjugate, Hermiticity test, qubit-order reversal, expectation values"),
    SubCheck("from_matrix", o_matrix, strategy=mat_cases, examples=(150, 600), shards=(4, 12),
             rule="get_sparse_operator(get_pauliop_from_matrix(A)) == A"),
]
SUBCHECKS.append(SubCheck("wide_operators", o_wide, strategy=wide_cases, examples=(200, 1000), shards=(4, 12),
                          rule="terms / sums reaching qubit 7..10 (12 thorough): sparse matrix, reversal, adjoint, expectation values against a matrix-free tensor-product reference on random and basis vectors; non-trivial = contains Y"))
SUBCHECKS[1].expected_classes = ["zero_operator", "constant_term", "hermitian", "padded"]
