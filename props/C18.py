"""C18 - decomposing a circuit never changes what it does."""
import math

import numpy as np
from hypothesis import strategies as st

from vlib import cgen, ref
from vlib.harness import SubCheck, is_open, must, require

PROPERTY_ID = "C18"
TECHNIQUE = 'property-based testing (Hypothesis) against a numpy reference up to global phase; own sequential model of rule application; probe for open finding K1'
RULE = (
    "Circuits (n<=4, <=6 ops) mixing plain U3 on any qubit, controlled-U3 with 1..2 controls on any "
    "ordered qubit tuple, and unrelated gates (built-ins except RZ/RY, wrappers, custom); rule lists "
    "[], [U3GateToRotation()] and harness rules (X->H,Z,H; Z->S,S; H->U3) in drawn orders. Oracle: numpy "
    "reference action equal up to one global phase, untouched operations identical and in order, width "
    "kept, empty rule list = identity, decompose(ops,[r1,..,rk]) == sequential application. Main search "
    "draws controlled-U3 with lambda = -phi + 4 pi m (open finding K1 otherwise, probed separately with "
    "its exact residual). Non-trivial: >= 2 decomposed operations or a controlled-U3 on a permuted tuple."
)
ASSUMPTIONS = [
    "open finding K1: controlled-U3 with (phi+lambda) mod 4pi != 0 is accepted only with the recorded residual (a phase exp(-i(phi+lambda)/2) on the all-controls-1 block)",
    "unrelated gates exclude RZ/RY so that produced rotations can be told apart from untouched operations",
    "gate parameters are Python floats; widths <= 5",
]

OTHERS = [n for n in cgen.NAMES if n not in ("RZ", "RY", "U3")]
SMALL = [4e-3, -2.5e-3, 1e-3, 1e-5, -7e-4, 4 * math.pi + 3e-3, -4 * math.pi - 1e-3, 2 * math.pi - 2e-3]


def _angles():
    """angles as everywhere else, plus small ones (and ones close to a whole number of turns): a rotation by 0.004 is small, not nothing"""
    return st.one_of(cgen.angles(), cgen.angles(), st.sampled_from(SMALL))


@st.composite
def circ(draw, tier, k1=False):
    n = draw(st.integers(1, 4))
    ops = []
    for _ in range(draw(st.integers(1, 6 if tier == "quick" else 9))):
        r = draw(st.integers(0, 9))
        perm = list(draw(st.permutations(list(range(n)))))
        if r < 3:
            ops.append({"kind": "u3", "g": "U3", "p": [draw(_angles()) for _ in range(3)], "mods": [], "q": perm[:1]})
        elif r < 6 and n >= 2:
            k = draw(st.integers(1, min(2, n - 1)))
            th, ph = draw(_angles()), draw(_angles())
            if k1:
                lam = draw(cgen.angles())
            else:
                lam = -ph + 4 * math.pi * draw(st.sampled_from([0, 1, -1]))
            ops.append({"kind": "cu3", "g": "U3", "p": [th, ph, lam], "mods": [["c", k]], "q": perm[: k + 1]})
        elif r == 6:
            # a U3 under another wrapper (adjoint, power, controlled adjoint) is not a U3 / controlled U3: no bundled rule applies to it
            mods = draw(st.sampled_from([[["dag"]], [["pow", 2]], [["dag"], ["c", 1]], [["pow", 3]]]))
            if cgen.gate_arity({"g": "U3", "mods": mods}) > n:
                mods = [["dag"]]
            g = {"g": "U3", "p": [draw(cgen.angles()) for _ in range(3)], "mods": mods, "kind": "other", "wrapped_u3": True}
            g["q"] = perm[: cgen.gate_arity(g)]
            ops.append(g)
        else:
            g = draw(cgen.gate_specs(maxq=min(n, 3), names=OTHERS, mods=("dag", "c"), max_mods=1))
            g["kind"] = "other"
            g["q"] = perm[: cgen.gate_arity(g)]
            ops.append(g)
    if k1 and not any(o["kind"] == "cu3" for o in ops) and n >= 2:
        perm = list(draw(st.permutations(list(range(n)))))
        ops.append({"kind": "cu3", "g": "U3", "p": [draw(cgen.angles()) for _ in range(3)], "mods": [["c", 1]], "q": perm[:2]})
    return {"n": n, "width": draw(st.sampled_from([None, n, n + 1])), "ops": ops,
            "rules": draw(st.lists(st.sampled_from(["x", "z", "h", "u3"]), max_size=4))}


def _own(c, n):
    U = np.eye(2 ** n, dtype=complex)
    for op in c.operations:
        q = tuple(op.qubit_indices)
        require(len(set(q)) == len(q) and len(q) == op.gate.num_qubits and all(0 <= i < n for i in q), lambda: f"operation {op} has invalid qubit indices on {n} qubits")
        U = ref.embed(ref.npm(op.gate.matrix), q, n) @ U
    return U


def _rules():
    from orquestra.quantum.circuits import H, S, U3, Z
    from orquestra.quantum.decompositions import U3GateToRotation
    from orquestra.quantum.decompositions._decomposition import DecompositionRule

    class XtoHZH(DecompositionRule):
        def predicate(self, op):
            return op.gate.name == "X"

        def production(self, op):
            q = op.qubit_indices[0]
            return [H(q), Z(q), H(q)]

    class ZtoSS(DecompositionRule):
        def predicate(self, op):
            return op.gate.name == "Z"

        def production(self, op):
            q = op.qubit_indices[0]
            return [S(q), S(q)]

    class HtoU3(DecompositionRule):
        def predicate(self, op):
            return op.gate.name == "H"

        def production(self, op):
            return [U3(math.pi / 2, 0.0, math.pi)(op.qubit_indices[0])]

    return {"x": XtoHZH(), "z": ZtoSS(), "h": HtoU3(), "u3": U3GateToRotation()}


def _is_rot(op):
    from orquestra.quantum.circuits._gates import ControlledGate

    g = op.gate
    return g.name in ("RZ", "RY") or (isinstance(g, ControlledGate) and g.wrapped_gate.name in ("RZ", "RY"))


def oracle(spec, k1=False):
    from orquestra.quantum.circuits import PHASE, Circuit
    from orquestra.quantum.decompositions import (U3GateToRotation, decompose_operations,
                                                  decompose_orquestra_circuit)

    c = cgen.build_circuit(spec)
    n = c.n_qubits
    ops0 = list(c.operations)
    d = must(lambda: decompose_orquestra_circuit(c, [U3GateToRotation()]), "decompose_orquestra_circuit")
    require(list(c.operations) == ops0, "decomposition modified the input circuit")
    require(d.n_qubits == n, lambda: f"decomposed circuit has width {d.n_qubits}, original {n}")
    A = _own(c, n)
    B = _own(d, n)
    same = ref.equal_up_to_phase(B, A, 1e-8)
    known = None
    if k1:
        if not same and is_open("K1"):
            corr = []
            for o, op in zip(spec["ops"], c.operations):
                corr.append(op)
                if o["kind"] == "cu3":
                    k = o["mods"][0][1]
                    th, ph, lam = o["p"]
                    ctr = op.qubit_indices[:k]
                    pg = PHASE(-(ph + lam) / 2)
                    corr.append((pg.controlled(k - 1) if k > 1 else pg)(*ctr))
            A2 = _own(Circuit(corr, n), n)
            if ref.equal_up_to_phase(B, A2, 1e-8):
                known = "K1"
        require(same or known, lambda: "controlled-U3 decomposition differs from the original by more than the recorded relative phase")
    else:
        require(same, lambda: f"decomposed circuit does not act as the original up to a global phase, max|d|={ref.maxdiff(A, B):.3g}")
    # untouched operations identical and in order
    keep = [op for o, op in zip(spec["ops"], c.operations) if o["kind"] == "other"]
    dkeep = [op for op in d.operations if not _is_rot(op)]
    require(dkeep == keep, lambda: f"operations no rule applies to are not kept unchanged and in order: {dkeep} vs {keep}")
    for op in d.operations:
        require(op.gate.name != "U3" and not (hasattr(op.gate, "wrapped_gate") and op.gate.name == "Control" and op.gate.wrapped_gate.name == "U3"), lambda: f"a U3 survived decomposition: {op}")
    # empty rule list
    e = must(lambda: decompose_orquestra_circuit(c, []), "decompose with no rules")
    require(list(e.operations) == ops0 and e.n_qubits == n, "empty rule list did not return the circuit unchanged")
    # rule order law
    R = _rules()
    rules = [R[r] for r in spec["rules"]]
    a = must(lambda: decompose_operations(list(c.operations), rules), "decompose_operations(rules)")
    b = list(c.operations)
    for r in rules:
        b = must(lambda: decompose_operations(b, [r]), "decompose_operations(single rule)")
    require(list(a) == list(b), lambda: f"rules {spec['rules']}: joint application differs from applying them one after another")
    if not k1 or same:
        Ca = _own(Circuit(list(a), n), n)
        require(ref.equal_up_to_phase(Ca, A, 1e-8), lambda: f"rules {spec['rules']}: decomposed circuit does not act as the original up to a global phase")
    nd = sum(1 for o in spec["ops"] if o["kind"] != "other")
    perm_cu3 = any(o["kind"] == "cu3" and o["q"] != sorted(o["q"]) for o in spec["ops"])
    cl = set()
    if any(o["kind"] == "cu3" and o["mods"][0][1] == 2 for o in spec["ops"]):
        cl.add("two_controls")
    if perm_cu3:
        cl.add("cu3_permuted")
    if any(o["kind"] == "u3" for o in spec["ops"]):
        cl.add("plain_u3")
    if any(o.get("wrapped_u3") for o in spec["ops"]):
        cl.add("u3_under_other_wrapper")
    if "h" in spec["rules"] and "u3" in spec["rules"] and spec["rules"].index("h") < spec["rules"].index("u3"):
        cl.add("rule_feeding_rule")
    if c.n_qubits > max(q for o in spec["ops"] for q in o["q"]) + 1:
        cl.add("idle_top_qubit")
    out = {"classes": cl, "nontrivial": nd >= 2 or perm_cu3}
    if known:
        out["known"] = known
        out["nontrivial"] = False
    return out


# ---------------------------------------------------------------- rule chains (each rule works on the previous rule's output)

CHAIN_GATES = {"X": 1, "Z": 1, "H": 1, "S": 1, "T": 1, "Y": 1, "CNOT": 2, "SWAP": 2}


@st.composite
def chain_cases(draw, tier):
    n = draw(st.integers(1, 3))
    rules = draw(st.one_of(st.sampled_from([["x", "z"], ["x", "h"], ["h", "u3"], ["x", "h", "u3"], ["x", "z", "h", "u3"], ["z", "x", "h"], ["x", "u3", "h"]]),
                           st.lists(st.sampled_from(["x", "z", "h", "u3"]), min_size=2, max_size=5)))
    # leave out the gate kinds later rules look for (most of the time), so that those rules match nothing in the input
    feeds = {"x": "X", "z": "Z", "h": "H"}
    starve = draw(st.integers(0, 3)) > 0
    banned = {feeds[r] for r in rules[1:] if r in feeds} if starve else set()
    pool = [g for g in sorted(CHAIN_GATES) if CHAIN_GATES[g] <= n and g not in banned]
    first = feeds.get(rules[0])
    ops = []
    for i in range(draw(st.integers(1, 5))):
        g = first if (i == 0 and first and first not in banned) else draw(st.sampled_from(pool))
        perm = list(draw(st.permutations(list(range(n)))))
        ops.append({"g": g, "p": [], "mods": [], "q": perm[: CHAIN_GATES[g]]})
    if not (starve and "u3" in rules[1:]) and draw(st.booleans()):
        ops.append({"g": "U3", "p": [draw(cgen.angles()) for _ in range(3)], "mods": [], "q": [draw(st.integers(0, n - 1))]})
    ops = [ops[i] for i in draw(st.permutations(list(range(len(ops)))))]
    return {"n": n, "width": draw(st.sampled_from([None, n + 1])), "ops": ops, "rules": rules, "via": draw(st.sampled_from(["operations", "circuit"]))}


def o_chain(spec):
    from orquestra.quantum.circuits import Circuit
    from orquestra.quantum.decompositions import decompose_operations, decompose_orquestra_circuit

    c = cgen.build_circuit(spec)
    n = c.n_qubits
    R = _rules()
    rules = [R[r] for r in spec["rules"]]
    # independent model of the stated semantics: one full pass per rule, in the order given
    want = list(c.operations)
    fed = False
    for r in rules:
        nxt = []
        matched_input = any(r.predicate(op) for op in c.operations)
        for op in want:
            if r.predicate(op):
                nxt.extend(list(r.production(op)))
                if not matched_input:
                    fed = True
            else:
                nxt.append(op)
        want = nxt
    if spec["via"] == "operations":
        got = list(must(lambda: decompose_operations(list(c.operations), rules), "decompose_operations"))
    else:
        dc = must(lambda: decompose_orquestra_circuit(c, rules), "decompose_orquestra_circuit")
        require(dc.n_qubits == n, lambda: f"decomposed circuit has width {dc.n_qubits}, original {n}")
        got = list(dc.operations)
    require(got == want, lambda: f"rules {spec['rules']}: result {[str(o) for o in got]} is not what applying each rule in turn to the previous rule's output gives: {[str(o) for o in want]}")
    A, B = _own(c, n), _own(Circuit(got, n), n)
    require(ref.equal_up_to_phase(B, A, 1e-8), lambda: f"rules {spec['rules']}: decomposed circuit does not act as the original up to a global phase")
    return {"classes": (["later_rule_fed_only_by_earlier_output"] if fed else []) + ["via:" + spec["via"]], "nontrivial": fed}


SUBCHECKS = [
    SubCheck("decompose", oracle, strategy=circ, examples=(90, 1200), shards=(12, 16), fork_timeout=60,
             rule="action up to global phase, untouched operations in order, width kept, empty rule list, rule order law"),
    SubCheck("probe_K1", lambda s: oracle(s, k1=True), strategy=lambda t: circ(t, k1=True), examples=(60, 250), shards=(2, 4), fork_timeout=60,
             rule="open finding K1: controlled-U3 with arbitrary lambda; accepted only when equivalent or with the recorded residual"),
]
SUBCHECKS.append(SubCheck("rule_chains", o_chain, strategy=chain_cases, examples=(400, 3000), shards=(2, 8),
                          rule="rule lists of length 2..5 over X->HZH, Z->SS, H->U3, U3->rotations on circuits that lack some gate kinds: the result equals one full pass per rule in the given "
                               "order (own sequential model), by decompose_operations and decompose_orquestra_circuit; non-trivial = a rule that matches nothing in the input but matches an earlier rule's output"))
SUBCHECKS[2].expected_classes = ["later_rule_fed_only_by_earlier_output", "via:operations", "via:circuit"]
SUBCHECKS[0].expected_classes = ["two_controls", "cu3_permuted", "plain_u3", "rule_feeding_rule", "idle_top_qubit"]
