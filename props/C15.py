"""C15 - estimation returns one correctly weighted result per task, in task order."""
import numpy as np
import sympy
from hypothesis import strategies as st

from vlib import cgen, pgen, ref
from vlib.harness import SubCheck, must, require

PROPERTY_ID = "C15"
# (exact_wide: registers of 9-11 qubits through a state-vector reference)
TECHNIQUE = 'property-based testing (Hypothesis) of task lists against closed-form expected values and a numpy quadratic-form reference'
RULE = (
    "Task lists of 0..8 estimation tasks in drawn order, each measurable (Ising sum with >= 1 "
    "non-constant term on a basis-state circuit, shots 1..50), constant (single constant term, shots "
    "None / 0 / n) or zero-shot non-constant; runner = SymbolicSimulator(seed) or a scripted runner "
    "returning surplus shots; random circuits (n<=3) with general Pauli sums for exact expectation; "
    "symbolic circuits with one symbol map per task. Oracle: coefficient x eigenvalue of the prepared "
    "basis state, constant / 0.0 for unmeasured tasks, quadratic form with the reference matrix, "
    "circuit.bind(map_i). Non-trivial: a list holding all three kinds with an unmeasured task before a "
    "measured one."
)
ASSUMPTIONS = [
    "constant operators are single-term (simplified); unsimplified all-constant sums and the empty sum as estimation operator are outside the asserted domain",
    "measurable tasks have a positive Python int shot count; one symbol map per task",
    "'exactly coefficient times eigenvalue' is compared at 1e-12 relative (no sampling error)",
]


@st.composite
def task(draw, kind=None):
    kind = kind or draw(st.sampled_from(["measure", "measure", "constant", "zero_shot"]))
    n = draw(st.integers(1, 4))
    bits = [draw(st.integers(0, 1)) for _ in range(n)]
    coef = st.one_of(st.floats(-3, 3, allow_nan=False).filter(lambda x: abs(x) > 1e-3), st.sampled_from([1 / 3, 0.1, -2, 1, 3]))
    if kind == "constant":
        terms = [{"q": [], "c": draw(coef)}]
        shots = draw(st.sampled_from([None, 0, 5, 100]))
    else:
        terms = []
        for _ in range(draw(st.integers(1, 4))):
            qs = draw(st.lists(st.integers(0, n - 1), unique=True, max_size=n))
            terms.append({"q": sorted(qs), "c": draw(coef)})
        if all(not t["q"] for t in terms):
            terms.append({"q": [draw(st.integers(0, n - 1))], "c": draw(coef)})
        shots = 0 if kind == "zero_shot" else draw(st.one_of(st.integers(1, 50), st.sampled_from([1, 2, 3, 7, 33])))
    return {"kind": kind, "bits": bits, "terms": terms, "shots": shots, "as_term": draw(st.booleans())}


@st.composite
def avg_cases(draw, tier):
    tasks = draw(st.lists(task(), max_size=8))
    if draw(st.integers(0, 2)) == 0 and len(tasks) <= 5:
        tasks = [draw(task("constant")), draw(task("measure")), draw(task("zero_shot"))] + tasks
        tasks = list(draw(st.permutations(tasks)))
    return {"tasks": tasks, "runner": draw(st.sampled_from(["symbolic", "scripted"])), "seed": draw(st.integers(0, 2 ** 31 - 1)),
            "surplus": draw(st.sampled_from([0, 2]))}


def _op(t):
    from orquestra.quantum.operators import PauliSum, PauliTerm

    terms = [PauliTerm({q: "Z" for q in x["q"]}, x["c"]) for x in t["terms"]]
    return terms[0] if (len(terms) == 1 and t["as_term"]) else PauliSum(terms)


def _prep(bits):
    from orquestra.quantum.circuits import Circuit, X

    return Circuit([X(q) for q, b in enumerate(bits) if b], len(bits))


def o_avg(spec):
    from orquestra.quantum.api.circuit_runner import BaseCircuitRunner
    from orquestra.quantum.api.estimation import EstimationTask
    from orquestra.quantum.estimation import (estimate_expectation_values_by_averaging,
                                              split_estimation_tasks_to_measure)
    from orquestra.quantum.measurements import Measurements
    from orquestra.quantum.runners import SymbolicSimulator

    seen = []

    class Scripted(BaseCircuitRunner):
        def _run_and_measure(self, circuit, n_samples):
            seen.append(circuit)
            bits = [0] * circuit.n_qubits
            for op in circuit.operations:
                bits[op.qubit_indices[0]] ^= 1
            return Measurements([tuple(bits)] * (n_samples + spec["surplus"]))

    tasks = [EstimationTask(_op(t), _prep(t["bits"]), t["shots"]) for t in spec["tasks"]]
    runner = SymbolicSimulator(seed=spec["seed"]) if spec["runner"] == "symbolic" else Scripted()
    snapshot = list(tasks)
    res = must(lambda: estimate_expectation_values_by_averaging(runner, tasks), "estimate_expectation_values_by_averaging")
    require(tasks == snapshot, "the task list was modified")
    require(len(res) == len(tasks), lambda: f"{len(res)} results for {len(tasks)} tasks")
    for i, (t, r) in enumerate(zip(spec["tasks"], res)):
        require(r is not None and hasattr(r, "values"), lambda: f"task {i}: no result")
        vals = [complex(v) for v in np.ravel(r.values)]
        if t["kind"] == "measure":
            want = [x["c"] * int(np.prod([1 - 2 * t["bits"][q] for q in x["q"]])) for x in t["terms"]]
            require(len(vals) == len(want), lambda: f"task {i}: {len(vals)} values for {len(want)} terms")
            for got, w in zip(vals, want):
                require(abs(got - w) <= 1e-12 * max(1.0, abs(w)), lambda: f"task {i} (measured, {t['shots']} shots): values {vals}, expected coefficient x eigenvalue {want}")
        elif t["kind"] == "constant":
            require(len(vals) == 1 and vals[0] == t["terms"][0]["c"], lambda: f"task {i} (constant): values {vals}, expected [{t['terms'][0]['c']}]")
        else:
            require(len(vals) == 1 and vals[0] == 0, lambda: f"task {i} (zero-shot): values {vals}, expected [0.0]")
    # the runner only saw the measurable tasks, in order
    if spec["runner"] == "scripted":
        want_circs = [tasks[i].circuit for i, t in enumerate(spec["tasks"]) if t["kind"] == "measure"]
        # (which circuits the runner is handed, and in which order, is not part of the statement; a wrong circuit shows in the values above)
        require(all(any(a == b for b in want_circs) for a in seen), "the runner was handed a circuit that belongs to no measurable task")
    # partition
    tm, tn, im, inn = must(lambda: split_estimation_tasks_to_measure(tasks), "split_estimation_tasks_to_measure")
    want_m = [i for i, t in enumerate(spec["tasks"]) if t["kind"] == "measure"]
    want_n = [i for i, t in enumerate(spec["tasks"]) if t["kind"] != "measure"]
    require(list(im) == want_m and list(inn) == want_n, lambda: f"split indices {im} / {inn}, expected {want_m} / {want_n}")
    require([tasks[i] for i in im] == list(tm) and [tasks[i] for i in inn] == list(tn), "split task lists do not match their indices")
    kinds = [t["kind"] for t in spec["tasks"]]
    allk = set(kinds) >= {"measure", "constant", "zero_shot"}
    unmeasured_first = any(k != "measure" for k in kinds[: kinds.index("measure")]) if "measure" in kinds else False
    cl = ["runner:" + spec["runner"]]
    if allk:
        cl.append("all_three_kinds")
    if not kinds:
        cl.append("empty_list")
    if "measure" not in kinds and kinds:
        cl.append("nothing_to_measure")
    return {"classes": cl, "nontrivial": allk and unmeasured_first}


@st.composite
def exact_cases(draw, tier):
    tasks = []
    for _ in range(draw(st.integers(1, 4))):
        c = draw(cgen.circuit_specs(max_n=3, max_ops=4, max_mods=1, custom=False))
        n = cgen.circuit_width(c)
        op = draw(pgen.sums(max_q=n, max_terms=3, zero=False))
        tasks.append({"c": c, "op": op, "as_term": draw(st.booleans())})
    return {"tasks": tasks, "seed": draw(st.integers(0, 1000))}


def o_exact(spec):
    from orquestra.quantum.api.estimation import EstimationTask
    from orquestra.quantum.estimation import calculate_exact_expectation_values
    from orquestra.quantum.runners import SymbolicSimulator

    tasks, wants = [], []
    for t in spec["tasks"]:
        c = cgen.build_circuit(t["c"])
        n = cgen.circuit_width(t["c"])
        op = pgen.build_sum(t["op"])
        if t["as_term"] and len(t["op"]["terms"]) == 1:
            op = pgen.build_term(t["op"]["terms"][0])
        tasks.append(EstimationTask(op, c, None))
        psi = cgen.ref_circuit_matrix(t["c"], n)[:, 0]
        M = pgen.canon_matrix(pgen.canon_sum(t["op"]), n)
        wants.append((np.vdot(psi, M @ psi), max(1.0, pgen.canon_norm(pgen.canon_sum(t["op"])))))
    res = must(lambda: calculate_exact_expectation_values(SymbolicSimulator(seed=spec["seed"]), tasks), "calculate_exact_expectation_values")
    require(len(res) == len(tasks), lambda: f"{len(res)} results for {len(tasks)} tasks")
    for i, (r, (w, scale)) in enumerate(zip(res, wants)):
        v = np.ravel(r.values)
        require(len(v) == 1 and abs(v[0] - w.real) <= 1e-8 * scale, lambda: f"task {i}: exact expectation {v}, quadratic form gives {w.real}")
    return {"nontrivial": len(tasks) >= 2}


@st.composite
def exact_wide_cases(draw, tier):
    """Registers of 9-10 (11 thorough) qubits: a basis-state preparation plus a few rotations / entanglers; Ising and general
    operators whose terms reach the lowest- and the highest-numbered qubits."""
    n = draw(st.sampled_from([9, 9, 10] if tier == "quick" else [9, 10, 11]))
    ops = [{"g": "X", "p": [], "mods": [], "q": [q]} for q in range(n) if draw(st.booleans())]
    for _ in range(draw(st.integers(0, 3))):
        nm = draw(st.sampled_from(["RY", "RX", "H", "CNOT", "XX", "SWAP"]))
        perm = draw(st.permutations(list(range(n))))
        ops.append({"g": nm, "p": [draw(cgen.angles()) for _ in range(cgen.TABLE[nm][1])], "mods": [], "q": list(perm[: cgen.TABLE[nm][0]])})
    terms = []
    ising = draw(st.booleans())
    for _ in range(draw(st.integers(1, 4))):
        qs = draw(st.lists(st.one_of(st.integers(0, n - 1), st.integers(0, 1), st.integers(n - 2, n - 1)), unique=True, min_size=1, max_size=3))
        terms.append({"ops": [[q, "Z" if ising else draw(st.sampled_from("XYZ"))] for q in sorted(qs)],
                      "c": draw(pgen.coefs(zero=False, kinds=("int", "float")))})
    return {"n": n, "ops": ops, "terms": terms, "seed": draw(st.integers(0, 1000)), "as_term": draw(st.booleans())}


def o_exact_wide(spec):
    from orquestra.quantum.api.estimation import EstimationTask
    from orquestra.quantum.circuits import Circuit
    from orquestra.quantum.estimation import calculate_exact_expectation_values
    from orquestra.quantum.runners import SymbolicSimulator
    from vlib import ref

    n = spec["n"]
    c = Circuit([cgen.build_gate(o)(*o["q"]) for o in spec["ops"]], n)
    psi = np.zeros(2 ** n, dtype=complex)
    psi[0] = 1
    for o in spec["ops"]:
        psi = ref.embed_apply(cgen.ref_gate_matrix(o), o["q"], n, psi)
    op = pgen.build_sum({"terms": spec["terms"]})
    if spec["as_term"] and len(spec["terms"]) == 1:
        op = pgen.build_term(spec["terms"][0])
    want = 0
    for key, cf in pgen.canon_sum({"terms": spec["terms"]}).items():
        v = psi
        for q, letter in key:
            v = ref.embed_apply(ref.PAULI[letter], [q], n, v)
        want = want + cf * np.vdot(psi, v)
    res = must(lambda: calculate_exact_expectation_values(SymbolicSimulator(seed=spec["seed"]), [EstimationTask(op, c, None)]), "calculate_exact_expectation_values")
    v = np.ravel(res[0].values)
    scale = max(1.0, pgen.canon_norm(pgen.canon_sum({"terms": spec["terms"]})))
    require(len(res) == 1 and len(v) == 1 and abs(v[0] - np.real(want)) <= 1e-8 * scale,
            lambda: f"{n} qubits: exact expectation {v} of {op!r}, the state's quadratic form gives {np.real(want)}")
    ex = must(lambda: SymbolicSimulator().get_exact_expectation_values(c, op), "get_exact_expectation_values")
    require(abs(ex - np.real(want)) <= 1e-8 * scale, lambda: f"{n} qubits: simulator's exact expectation {ex}, quadratic form gives {np.real(want)}")
    zonly = all(p == "Z" for t in spec["terms"] for _, p in t["ops"])
    low = any(q <= n - 9 for t in spec["terms"] for q, _ in t["ops"])
    return {"classes": (["ising"] if zonly else ["general"]) + (["term_on_qubit<=n-9"] if low else []), "nontrivial": low}


@st.composite
def bind_cases(draw, tier):
    tasks = []
    for _ in range(draw(st.integers(0, 4))):
        n = draw(st.integers(1, 3))
        ops = []
        for _ in range(draw(st.integers(1, 3))):
            nm = draw(st.sampled_from(["RX", "RY", "PHASE", "ZZ", "X", "CNOT", "U3"]))
            if cgen.TABLE[nm][0] > n:
                nm = "RX"
            ps = [draw(st.one_of(st.floats(-3, 3, allow_nan=False), st.sampled_from(["a", "b", "c"]).map(lambda s: ["sym", s]),
                                 st.sampled_from(["a", "b"]).map(lambda s: ["*", ["int", 2], ["sym", s]]))) for _ in range(cgen.TABLE[nm][1])]
            perm = draw(st.permutations(list(range(n))))
            ops.append({"g": nm, "p": ps, "mods": [], "q": list(perm[: cgen.TABLE[nm][0]])})
        m = {k: draw(st.one_of(st.floats(-2, 2, allow_nan=False), st.sampled_from([0, 0.0, -0.0, 1]))) for k in draw(st.lists(st.sampled_from(["a", "b", "c", "zz"]), unique=True))}
        tasks.append({"c": {"ops": ops, "width": n}, "map": m, "op": draw(pgen.sums(max_q=n, max_terms=2, zero=False)),
                      "shots": draw(st.sampled_from([None, 0, 10, 77]))})
    return {"tasks": tasks}


def o_bind(spec):
    from orquestra.quantum.api.estimation import EstimationTask
    from orquestra.quantum.estimation import evaluate_estimation_circuits

    tasks, maps = [], []
    for t in spec["tasks"]:
        tasks.append(EstimationTask(pgen.build_sum(t["op"]), cgen.build_circuit(t["c"]), t["shots"]))
        maps.append({sympy.Symbol(k): v for k, v in t["map"].items()})
    before = [(t.operator, t.circuit, list(t.circuit.operations), t.number_of_shots) for t in tasks]
    out = must(lambda: evaluate_estimation_circuits(tasks, maps), "evaluate_estimation_circuits")
    require(len(out) == len(tasks), lambda: f"{len(out)} tasks returned for {len(tasks)}")
    for i, (t, m, o) in enumerate(zip(tasks, maps, out)):
        require(o.operator is t.operator or o.operator == t.operator, lambda: f"task {i}: operator changed")
        require(o.number_of_shots == t.number_of_shots and type(o.number_of_shots) is type(t.number_of_shots), lambda: f"task {i}: shots changed")
        want = t.circuit.bind(m)
        require(o.circuit == want, lambda: f"task {i}: circuit {o.circuit} is not the task's circuit bound with its own map {m}")
        require(set(o.circuit.free_symbols) == set(t.circuit.free_symbols) - set(m), lambda: f"task {i}: free symbols {o.circuit.free_symbols} after binding {list(m)}")
    for t, (op, c, ops, s) in zip(tasks, before):
        require(t.operator is op and t.circuit is c and list(c.operations) == ops and t.number_of_shots == s, "input tasks were modified")
    distinct_maps = len({tuple(sorted(t["map"].items())) for t in spec["tasks"]}) >= 2
    return {"nontrivial": len(tasks) >= 2 and distinct_maps}


SUBCHECKS = [
    SubCheck("averaging", o_avg, strategy=avg_cases, examples=(400, 2500), shards=(6, 16),
             rule="estimate_expectation_values_by_averaging / split_estimation_tasks_to_measure on mixed task lists"),
    SubCheck("exact", o_exact, strategy=exact_cases, examples=(150, 800), shards=(4, 12), fork_timeout=60,
             rule="calculate_exact_expectation_values == quadratic form, one value per task in order"),
    SubCheck("exact_wide", o_exact_wide, strategy=exact_wide_cases, examples=(12, 60), shards=(8, 16), fork_timeout=120,
             rule="exact expectation values on registers of 9-10 (11) qubits vs the quadratic form computed with a state-vector reference; non-trivial = a term on a qubit <= n-9"),
    SubCheck("bind_tasks", o_bind, strategy=bind_cases, examples=(150, 800), shards=(2, 8),
             rule="evaluate_estimation_circuits binds task i's circuit with map i and changes nothing else"),
]
SUBCHECKS[0].expected_classes = ["all_three_kinds", "empty_list", "nothing_to_measure", "runner:symbolic", "runner:scripted"]
