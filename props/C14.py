"""C14 - runners validate requests, deliver enough shots and count their work correctly."""
import json
import os
import shutil
import tempfile

import numpy as np
from hypothesis import strategies as st
from hypothesis.stateful import initialize, rule

from vlib import ref
from vlib.harness import SubCheck, fail, make_trace_machine, must, must_raise, require

PROPERTY_ID = "C14"
TECHNIQUE = 'stateful property-based testing (Hypothesis RuleBasedStateMachine) over runner call histories with harness-side runner subclasses as instrumentation'
RULE = (
    "Stateful: one runner per history out of {scripted BaseCircuitRunner subclass, SymbolicSimulator, "
    "BaseWavefunctionSimulator subclass with a drawn native gate set, MeasurementTrackingBackend around "
    "a recording scripted runner or a recording SymbolicSimulator, with and without bitstring "
    "recording}; rules = single run, batch (int / list / tuple of counts), outcome distribution "
    "(n / None), wavefunction, exact expectation, each in valid and invalid variants (n <= 0, wrong "
    "length, non-positive entry). Circuits are basis-state preparations with distinct bit patterns, "
    "idle qubits, interleaved I/Z gates, diagonal rotations whose angles come from a pool of values that compare "
    "equal yet serialise differently (0.5 / 0.5000000025 / 1/2, 1 / 1.0, pi/2 / 1.5707963267948966; rule run_twins "
    "submits such a pair back to back) and empty circuits of explicit width, so result order and "
    "content are checkable. After every call: ValueError iff invalid, nothing executed and counters "
    "unchanged on rejection, one result per circuit in order with >= requested shots of register "
    "length, exact counter growth, tracker returns the inner runner's objects and writes matching "
    "records. Non-trivial history: a rejected call between two successful ones. Circuits given to plain runners and simulators "
    "may contain phase-only operations; one simulator kind keeps the base class's default native predicate; single requests of "
    "1000..150001 shots occur where producing them is cheap."
)
ASSUMPTIONS = [
    "circuits have width >= 1 (the library cannot represent 0-qubit registers); batches hold >= 1 circuit",
    "circuits handed to the tracking wrapper are gate circuits (the library has no serialised form for phase-only operations, so no record could match them)",
    "sample counts are Python ints (or lists/tuples of them)",
    "the tracking wrapper's own counters are asserted for single runs (+1/+1), batches (+len/+1) and rejected calls (unchanged); for distribution queries only monotonicity is asserted",
]

KINDS = ["scripted", "symbolic", "split", "tracker_scripted", "tracker_symbolic"]


# angle values that compare equal (gate equality tolerates 1e-8) but serialise differently
ANGLES = ["0.5", "0.5000000025", "1/2", "1", "1.0", "pi/2", "1.5707963267948966", "0.3", "2"]
TWIN = {"0.5": "0.5000000025", "0.5000000025": "1/2", "1/2": "0.5", "1": "1.0", "1.0": "1", "pi/2": "1.5707963267948966",
        "1.5707963267948966": "pi/2", "0.3": "0.3", "2": "2"}


def _angle(text):
    import sympy

    if text in ("1", "2"):
        return int(text)
    if "/" in text or "pi" in text:
        return sympy.sympify(text)
    return float(text)


def twin_spec(spec):
    """Same circuit with every diagonal-rotation angle replaced by a value that compares equal to it."""
    out = dict(spec)
    out["rot"] = [[g, q, TWIN[a]] for g, q, a in spec.get("rot", [])]
    return out


def _circuit(spec):
    """spec: {"bits": [0/1...], "extra": [[gate, qubit], ...], "explicit": bool, "rot": [[RZ|PHASE, qubit, angle text], ...]}"""
    from orquestra.quantum.circuits import PHASE, RZ, Circuit, I, X, Z

    ops = []
    for g, q, a in spec.get("rot", []):  # diagonal gates: the prepared basis state is unchanged
        ops.append({"RZ": RZ, "PHASE": PHASE}[g](_angle(a))(q % len(spec["bits"])))
    extra = list(spec["extra"])
    for q, b in enumerate(spec["bits"]):
        if extra:
            g, eq = extra.pop(0)
            ops.append({"I": I, "Z": Z}[g](eq % len(spec["bits"])))
        if b:
            ops.append(X(q))
    for g, eq in extra:
        ops.append({"I": I, "Z": Z}[g](eq % len(spec["bits"])))
    width = len(spec["bits"])
    for pos, seedv in spec.get("mp", []):  # phase-only non-gate operations anywhere: the prepared basis state is unchanged
        from orquestra.quantum.circuits import MultiPhaseOperation
        ops.insert(min(pos, len(ops)), MultiPhaseOperation(tuple(0.1 * ((seedv + 3 * i) % 17) for i in range(2 ** width))))
    if not ops or spec["explicit"] or not spec["bits"][-1] or spec.get("mp"):
        return Circuit(ops, width)
    return Circuit(ops)


circuit_specs = st.fixed_dictionaries({
    "bits": st.lists(st.integers(0, 1), min_size=1, max_size=4),
    "extra": st.lists(st.tuples(st.sampled_from(["I", "Z"]), st.integers(0, 3)).map(list), max_size=3),
    "explicit": st.booleans(),
    "rot": st.one_of(st.just([]), st.lists(st.tuples(st.sampled_from(["RZ", "PHASE"]), st.integers(0, 3), st.sampled_from(ANGLES)).map(list), min_size=1, max_size=2)),
    "mp": st.one_of(st.just([]), st.just([]), st.lists(st.tuples(st.sampled_from([0, 0, 1, 2, 5]), st.integers(0, 16)).map(list), min_size=1, max_size=2)),
})


def machine(on_end, expired):
    from orquestra.quantum.api.circuit_runner import BaseCircuitRunner
    from orquestra.quantum.api.wavefunction_simulator import BaseWavefunctionSimulator
    from orquestra.quantum.circuits import GateOperation, to_dict
    from orquestra.quantum.measurements import Measurements
    from orquestra.quantum.operators import PauliSum, PauliTerm
    from orquestra.quantum.runners import SymbolicSimulator
    from orquestra.quantum.runners.trackers import MeasurementTrackingBackend

    Base = make_trace_machine(on_end, expired)

    class Scripted(BaseCircuitRunner):
        """Returns n (+ surplus) copies of the pattern the circuit prepares; counts executions."""

        def __init__(self, surplus):
            super().__init__()
            self.executed = 0
            self.surplus = surplus
            self.returned = []

        def _run_and_measure(self, circuit, n_samples):
            self.executed += 1
            bits = [0] * circuit.n_qubits
            for op in circuit.operations:
                if isinstance(op, GateOperation) and op.gate.name == "X":
                    bits[op.qubit_indices[0]] ^= 1
            m = Measurements([tuple(bits)] * (n_samples + self.surplus))
            self.returned.append(m)
            return m

    class RecordingSymbolic(SymbolicSimulator):
        def __init__(self, seed):
            super().__init__(seed=seed)
            self.returned = []
            self.executed = 0

        def _run_and_measure(self, circuit, n_samples):
            self.executed += 1
            m = super()._run_and_measure(circuit, n_samples)
            self.returned.append(m)
            return m

    class Split(BaseWavefunctionSimulator):
        def __init__(self, native, seed):
            super().__init__(seed=seed)
            self.native = set(native)
            self.native_runs = 0

        def is_natively_supported(self, operation):
            if self.native == {"*default*"}:  # the predicate the base class provides: gate operations are native, nothing else
                return super().is_natively_supported(operation)
            return isinstance(operation, GateOperation) and operation.gate.name in self.native

        def _get_wavefunction_from_native_circuit(self, circuit, initial_state):
            self.native_runs += 1
            state = np.asarray(initial_state, dtype=complex).reshape(-1)
            for op in circuit.operations:
                if not self.is_natively_supported(op):
                    raise AssertionError("non-native operation in the native step")
                state = ref.embed_apply(ref.npm(op.gate.matrix), op.qubit_indices, circuit.n_qubits, state)
            return state

    class RunnerMachine(Base):
        def __init__(self):
            super().__init__()
            self.runner = None
            self.tmp = None
            self.seq = []

        # ---- helpers
        def _fit(self, c):
            """The tracking wrapper records the serialised circuit, and the library has no serialised form for non-gate
            operations: circuits handed to a tracker are gate circuits."""
            if self.inner is not None and c.get("mp"):
                return dict(c, mp=[])
            if c.get("mp"):
                self.info["classes"].add("phase_operation_in_circuit")
            return c

        def _note(self, kind):
            self.seq.append(kind)
            if "ok" in self.seq:
                i = self.seq.index("ok")
                if "rej" in self.seq[i:] and "ok" in self.seq[i + self.seq[i:].index("rej"):]:
                    self.info["nontrivial"] = True
                    self.info["classes"].add("ok_rejected_ok")

        def _segments(self, c):
            """(segments, native segments) the simulator will run for circuit c."""
            if self.kind in ("symbolic", "tracker_symbolic"):
                return (1, 1) if c.operations else (0, 0)
            flags = [self.target.is_natively_supported(op) for op in c.operations]
            if not flags:
                return (0, 0)
            seg = 1 + sum(1 for a, b in zip(flags, flags[1:]) if a != b)
            nat = (1 if flags[0] else 0) + sum(1 for a, b in zip(flags, flags[1:]) if a != b and b)
            return seg, nat

        def _snapshot(self):
            r = self.runner
            snap = {"jobs": r.n_jobs_executed, "circs": r.n_circuits_executed}
            if self.inner is not None:
                snap["ijobs"] = self.inner.n_jobs_executed
                snap["icircs"] = self.inner.n_circuits_executed
                snap["iexec"] = self.inner.executed
            if hasattr(self.target, "executed"):
                snap["exec"] = self.target.executed
            if hasattr(self.target, "native_runs"):
                snap["native"] = self.target.native_runs
            return snap

        def _expect_unchanged(self, before, what):
            after = self._snapshot()
            require(after == before, lambda: f"{what}: rejected call changed counters / executed something: {before} -> {after}")

        def _expected_growth(self, circuits):
            """(jobs, circuits) growth of the object that actually executes."""
            if self.kind in ("scripted", "tracker_scripted"):
                return len(circuits), len(circuits)
            j = c = 0
            for circ in circuits:
                s, n = self._segments(circ)
                j += s
                c += n
            return j, c

        def _check_growth(self, before, circuits, tracker_mode):
            after = self._snapshot()
            gj, gc = self._expected_growth(circuits)
            pre = "i" if self.inner is not None else ""
            require(after[pre + "jobs"] - before[pre + "jobs"] == gj and after[pre + "circs"] - before[pre + "circs"] == gc,
                    lambda: f"executing runner counters grew by ({after[pre + 'jobs'] - before[pre + 'jobs']} jobs, {after[pre + 'circs'] - before[pre + 'circs']} circuits), expected ({gj}, {gc})")
            if "native" in after:
                require(after["native"] - before["native"] == gc, lambda: f"native step ran {after['native'] - before['native']} times, circuits counter grew by {gc}")
            if self.inner is not None:
                if tracker_mode == "single":
                    want = (1, 1)
                elif tracker_mode == "batch":
                    want = (1, len(circuits))
                else:
                    want = None
                dj, dc = after["jobs"] - before["jobs"], after["circs"] - before["circs"]
                if want is not None:
                    require((dj, dc) == want, lambda: f"tracker counters grew by ({dj} jobs, {dc} circuits), expected {want}")
                else:
                    require(dj >= 0 and dc >= 0, "tracker counters decreased")

        def _check_result(self, spec, circuit, m, n):
            want = tuple(spec["bits"])
            require(isinstance(m, Measurements), lambda: f"result is {type(m).__name__}")
            require(len(m.bitstrings) >= n, lambda: f"{len(m.bitstrings)} shots returned, {n} requested")
            for b in m.bitstrings:
                require(len(b) == circuit.n_qubits, lambda: f"bitstring {b} shorter/longer than the register ({circuit.n_qubits})")
                require(tuple(int(x) for x in b) == want, lambda: f"result {tuple(b)} does not belong to this circuit (prepares {want}): wrong order?")

        @staticmethod
        def _same_result(a, b):
            """'returns exactly what the wrapped runner returned': the very object, or an equal-valued one."""
            return a is b or (type(a) is type(b) and [tuple(x) for x in a.bitstrings] == [tuple(x) for x in b.bitstrings])

        def _check_file(self, circuits, results):
            with open(self.file) as f:
                text = f.read()
            try:
                data = json.loads(text)["raw-data"]
            except (ValueError, KeyError, TypeError) as e:
                fail(f"the tracker's file does not hold a JSON document with the records of the last call ({type(e).__name__}: {str(e)[:80]}); {len(text)} characters")
            require(len(data) == len(circuits), lambda: f"record file holds {len(data)} records for {len(circuits)} circuits")
            for rec, c, m in zip(data, circuits, results):
                require(rec["counts"] == m.get_counts(), lambda: f"recorded counts {rec['counts']} != returned {m.get_counts()}")
                require(rec["number_of_shots"] == len(m.bitstrings), "recorded shot number differs from the result")
                require(rec["circuit"] == json.loads(json.dumps(to_dict(c))), "recorded circuit is not the serialised circuit that was run")
                require(rec.get("device") == type(self.inner).__name__, "recorded device name wrong")
                if self.record_bits:
                    require(rec.get("bitstrings") == [list(map(int, b)) for b in m.bitstrings], "recorded bitstrings differ")
                else:
                    require("bitstrings" not in rec, "bitstrings recorded although recording is off")

        # ---- rules
        @initialize(kind=st.sampled_from(KINDS), seed=st.integers(0, 2 ** 31 - 1), surplus=st.sampled_from([0, 0, 1, 3]),
                    native=st.one_of(st.lists(st.sampled_from(["X", "I", "Z"]), unique=True), st.just(["*default*"])), record_bits=st.booleans())
        def init(self, kind, seed, surplus, native, record_bits):
            def go():
                self.kind = kind
                self.inner = None
                self.record_bits = record_bits
                if kind == "scripted":
                    self.runner = self.target = Scripted(surplus)
                elif kind == "symbolic":
                    self.runner = self.target = SymbolicSimulator(seed=seed)
                elif kind == "split":
                    self.runner = self.target = Split(native, seed)
                else:
                    self.inner = Scripted(surplus) if kind == "tracker_scripted" else RecordingSymbolic(seed)
                    self.target = self.inner
                    self.tmp = tempfile.mkdtemp(prefix="c14-")
                    self.file = os.path.join(self.tmp, "raw.json")
                    self.runner = MeasurementTrackingBackend(self.inner, self.file, record_bits)
                self.info["classes"].add("kind:" + kind)
                require(self.runner.n_jobs_executed == 0 and self.runner.n_circuits_executed == 0, "fresh runner has non-zero counters")
            self.step("init", {"kind": kind, "seed": seed, "surplus": surplus, "native": native, "record_bits": record_bits}, go)

        @rule(c=circuit_specs, n=st.one_of(st.integers(1, 40), st.integers(1, 40), st.integers(1, 40), st.sampled_from([1000, 65536, 65537, 100003, 150001])))
        def run_single(self, c, n):
            def go():
                if n > 1000 and (self.record_bits or self.kind in ("scripted", "tracker_scripted")):
                    return  # very many shots only where producing and recording them is cheap
                circ = _circuit(self._fit(c))
                before = self._snapshot()
                n_ret = len(self.inner.returned) if self.inner is not None else 0
                m = must(lambda: self.runner.run_and_measure(circ, n), "run_and_measure")
                self._check_result(c, circ, m, n)
                self._check_growth(before, [circ], "single")
                if self.inner is not None:
                    require(len(self.inner.returned) == n_ret + 1 and self._same_result(m, self.inner.returned[-1]), "tracker did not return what the wrapped runner returned")
                    self._check_file([circ], [m])
                self._note("ok")
            self.step("run_single", {"c": c, "n": n}, go)

        @rule(c=circuit_specs.filter(lambda c: c["rot"]), n=st.integers(1, 10), batch=st.booleans())
        def run_twins(self, c, n, batch):
            """Two circuits that compare equal but are written differently, one after the other."""
            def go():
                specs = [c, twin_spec(c)]
                circs = [_circuit(self._fit(x)) for x in specs]
                before = self._snapshot()
                n_ret = len(self.inner.returned) if self.inner is not None else 0
                if batch:
                    res = must(lambda: self.runner.run_batch_and_measure(circs, n), "run_batch_and_measure")
                    require(len(res) == 2, lambda: f"{len(res)} results for 2 circuits")
                    for x, circ, m in zip(specs, circs, res):
                        self._check_result(x, circ, m, n)
                    self._check_growth(before, circs, "batch")
                    if self.inner is not None:
                        got = self.inner.returned[n_ret:]
                        require(len(got) == 2 and all(self._same_result(a, b) for a, b in zip(res, got)), "tracker did not return what the wrapped runner returned")
                        self._check_file(circs, res)
                else:
                    for x, circ in zip(specs, circs):
                        before = self._snapshot()
                        m = must(lambda: self.runner.run_and_measure(circ, n), "run_and_measure")
                        self._check_result(x, circ, m, n)
                        self._check_growth(before, [circ], "single")
                        if self.inner is not None:
                            require(self._same_result(m, self.inner.returned[-1]), "tracker did not return what the wrapped runner returned")
                            self._check_file([circ], [m])
                self._note("ok")
                self.info["classes"].add("twins")
            self.step("run_twins", {"c": c, "n": n, "batch": batch}, go)

        @rule(c=circuit_specs, n=st.sampled_from([0, -1, -7]))
        def run_single_invalid(self, c, n):
            def go():
                circ = _circuit(self._fit(c))
                before = self._snapshot()
                must_raise(ValueError, lambda: self.runner.run_and_measure(circ, n), f"run_and_measure with n_samples={n}")
                self._expect_unchanged(before, "run_and_measure")
                self._note("rej")
            self.step("run_single_invalid", {"c": c, "n": n}, go)

        @rule(cs=st.lists(circuit_specs, min_size=1, max_size=4), ns=st.lists(st.integers(1, 30), min_size=4, max_size=4),
              mode=st.sampled_from(["int", "list", "tuple"]))
        def run_batch(self, cs, ns, mode):
            def go():
                circs = [_circuit(self._fit(c)) for c in cs]
                counts = ns[: len(cs)]
                arg = counts[0] if mode == "int" else (list(counts) if mode == "list" else tuple(counts))
                want_n = [counts[0]] * len(cs) if mode == "int" else counts
                before = self._snapshot()
                n_ret = len(self.inner.returned) if self.inner is not None else 0
                res = must(lambda: self.runner.run_batch_and_measure(circs, arg), "run_batch_and_measure")
                require(len(res) == len(circs), lambda: f"{len(res)} results for {len(circs)} circuits")
                for c, circ, m, n in zip(cs, circs, res, want_n):
                    self._check_result(c, circ, m, n)
                self._check_growth(before, circs, "batch")
                if self.inner is not None:
                    got = self.inner.returned[n_ret:]
                    require(len(got) == len(res) and all(self._same_result(a, b) for a, b in zip(res, got)), "tracker did not return what the wrapped runner returned")
                    self._check_file(circs, res)
                self._note("ok")
                self.info["classes"].add("batch:" + mode)
            self.step("run_batch", {"cs": cs, "ns": ns, "mode": mode}, go)

        @rule(cs=st.lists(circuit_specs, min_size=1, max_size=3), bad=st.sampled_from(["int0", "int_neg", "short", "long", "zero_entry", "neg_entry"]),
              pos=st.integers(0, 2))
        def run_batch_invalid(self, cs, bad, pos):
            def go():
                circs = [_circuit(self._fit(c)) for c in cs]
                L = len(circs)
                arg = {"int0": 0, "int_neg": -3, "short": [5] * (L - 1), "long": [5] * (L + 1),
                       "zero_entry": [5] * L, "neg_entry": [5] * L}[bad]
                if bad == "zero_entry":
                    arg[pos % L] = 0
                if bad == "neg_entry":
                    arg[pos % L] = -2
                before = self._snapshot()
                must_raise(ValueError, lambda: self.runner.run_batch_and_measure(circs, arg), f"run_batch_and_measure with n_samples={arg}")
                self._expect_unchanged(before, "run_batch_and_measure")
                self._note("rej")
                self.info["classes"].add("bad:" + bad)
            self.step("run_batch_invalid", {"cs": cs, "bad": bad, "pos": pos}, go)

        @rule(c=circuit_specs, n=st.sampled_from([None, 1, 5, 33, 0, -2]))
        def distribution(self, c, n):
            def go():
                circ = _circuit(self._fit(c))
                before = self._snapshot()
                sim = self.kind in ("symbolic", "split", "tracker_symbolic")
                invalid = (n is not None and n <= 0) or (n is None and not sim)
                if invalid:
                    must_raise(ValueError, lambda: self.runner.get_measurement_outcome_distribution(circ, n), f"distribution with n_samples={n}")
                    self._expect_unchanged(before, "get_measurement_outcome_distribution")
                    self._note("rej")
                    return
                d = must(lambda: self.runner.get_measurement_outcome_distribution(circ, n), "get_measurement_outcome_distribution")
                want = tuple(c["bits"])
                probs = {tuple(int(x) for x in k): v for k, v in d.distribution_dict.items()}
                require(abs(probs.get(want, 0) - 1) <= 1e-9 and all(len(k) == circ.n_qubits for k in probs), lambda: f"distribution {d.distribution_dict} for a circuit preparing {want}")
                self._check_growth(before, [circ], "dist")
                self._note("ok")
            self.step("distribution", {"c": c, "n": n}, go)

        @rule(c=circuit_specs, coef=st.floats(-2, 2, allow_nan=False), qs=st.lists(st.integers(0, 3), unique=True, max_size=3))
        def simulate(self, c, coef, qs):
            def go():
                if self.kind not in ("symbolic", "split"):
                    return
                circ = _circuit(self._fit(c))
                before = self._snapshot()
                wf = must(lambda: self.runner.get_wavefunction(circ), "get_wavefunction")
                amps = np.asarray(wf.amplitudes, dtype=complex).reshape(-1)
                idx = ref.basis_index(c["bits"])
                require(len(amps) == 2 ** circ.n_qubits and abs(abs(amps[idx]) - 1) <= 1e-9, "wavefunction is not the prepared basis state")
                self._check_growth(before, [circ], None)
                before = self._snapshot()
                support = [q for q in qs if q < circ.n_qubits]
                op = PauliSum([PauliTerm({q: "Z" for q in support}, coef)])
                e = must(lambda: self.runner.get_exact_expectation_values(circ, op), "get_exact_expectation_values")
                want = coef * np.prod([1 - 2 * c["bits"][q] for q in support])
                require(abs(e - want) <= 1e-9, lambda: f"exact expectation {e}, expected {want}")
                self._check_growth(before, [circ], None)
                self._note("ok")
            self.step("simulate", {"c": c, "coef": coef, "qs": qs}, go)

        def inv(self):
            if self.runner is None:
                return
            j, c = self.runner.n_jobs_executed, self.runner.n_circuits_executed
            last = getattr(self, "_last", (0, 0))
            require(j >= last[0] and c >= last[1], lambda: f"counters decreased: {last} -> {(j, c)}")
            self._last = (j, c)

        def teardown(self):
            if self.tmp:
                shutil.rmtree(self.tmp, ignore_errors=True)
            super().teardown()

    return RunnerMachine


SUBCHECKS = [
    SubCheck("runner_history", None, machine=machine, examples=(300, 2000), shards=(8, 16), steps=(15, 30),
             rule="state machine over runner calls; non-trivial = a rejected call between two successful ones"),
]
SUBCHECKS[0].expected_classes = ["kind:" + k for k in KINDS] + ["ok_rejected_ok", "batch:int", "batch:list", "batch:tuple",
                                                                 "bad:short", "bad:long", "bad:zero_entry", "bad:neg_entry", "bad:int0", "twins", "phase_operation_in_circuit"]
