"""C07 - gate modifiers (dagger, controlled, power, exp) mean what they say."""
from fractions import Fraction

import math

import numpy as np
import scipy.linalg as sl
import sympy
from hypothesis import strategies as st

from vlib import cgen, ref
from vlib.harness import SubCheck, forked, is_open, must, require

PROPERTY_ID = "C07"
TECHNIQUE = 'metamorphic one-step relations on generated modifier chains (Hypothesis), sympy evaluation in forked children with time-outs, scipy/numpy reference semantics'
RULE = (
    "Base gates (27 built-ins at drawn angles, random-unitary and exact-entry custom gates) x modifier "
    "chains of depth <= 2 (3 thorough) over {dagger, controlled(1..2), power(p), exp}, p in "
    "{-2,-1,2,3,1/2,1/3,1/4,2.5}, total arity <= 4, plus one final modifier m. Oracle: one-step "
    "metamorphic relation between the matrix the library reports for g and for g.m (adjoint, "
    "block-diagonal with identity first, matrix power / inverse, q-th power of a 1/q root equals the "
    "original, scipy expm), num_qubits and params as implied, replace_params commutes with the "
    "modifier. sympy-heavy evaluations run in forked children with a time-out (inconclusive, never a "
    "violation). Non-trivial: chain length >= 1 below m, or a fractional exponent, or exp."
)
ASSUMPTIONS = [
    "gate parameters are Python floats; chains that sympy cannot evaluate within the time-out are inconclusive",
    "at most one exp / fractional power per chain in the quick tier (two only on exact-entry bases in the thorough tier); never exp on T, PHASE, RZ, CPHASE, U3",
    "open finding K2: dagger above a non-integer power whose operand has an eigenvalue on the negative real axis is accepted only with the recorded signature",
    "roots are not unique: a fractional power 1/q is checked by raising it to the q-th power",
]

FRACS = [0.5, 1 / 3, 0.25, 2.5]
INTS = [2, 3, -1, -2]
EXACT = ["cx", "cz", "cs", "csx", "ciswap", "cy"]
HEAVY_OK_TWICE = cgen.EXACT_ENTRY
KINDS = ["dag", "c", "pow", "exp"]


def _is_frac(m):
    return m[0] == "pow" and float(m[1]) != int(m[1])


def _heavy(m):
    return m[0] == "exp" or _is_frac(m)


@st.composite
def _mod(draw, kind, room):
    if kind == "dag":
        return ["dag"]
    if kind == "c":
        return ["c", draw(st.integers(1, min(2, room)))] if room >= 1 else ["dag"]
    if kind == "exp":
        return ["exp"]
    if kind == "ipow":
        return ["pow", draw(st.sampled_from(INTS))]
    if kind == "fpow":
        return ["pow", draw(st.sampled_from(FRACS))]
    return ["pow", draw(st.sampled_from(INTS + FRACS))]


@st.composite
def chains(draw, tier, k2_class=False):
    r = draw(st.integers(0, 9))
    if k2_class:
        nm = draw(st.sampled_from(["X", "Y", "Z", "H", "CNOT", "CZ", "SWAP", "GPi"]))
        base = {"g": nm, "p": [draw(cgen.angles()) for _ in range(cgen.TABLE[nm][1])]}
    elif r < 1:
        base = {"g": "custom", "k": draw(st.integers(1, 2)), "mseed": draw(st.integers(0, 10 ** 4)), "p": []}
    elif r < 3:
        base = {"g": "cexact", "t": draw(st.sampled_from(EXACT)), "p": []}
    else:
        nm = draw(st.sampled_from(cgen.NAMES))
        base = {"g": nm, "p": [draw(cgen.angles()) for _ in range(cgen.TABLE[nm][1])]}
    name = base["g"]
    exact = name in cgen.EXACT_ENTRY or name == "cexact"
    k = cgen.base_arity(base)
    max_heavy = 2 if (tier == "thorough" and exact) else 1
    depth = draw(st.sampled_from([0, 1, 1, 2, 2] if tier == "quick" else [0, 1, 2, 2, 3]))
    if k2_class:
        seq = [draw(_mod("fpow", 0))] + [draw(_mod("c", 4 - k))] * draw(st.integers(0, 1))
        if nm in cgen.EXACT_ENTRY and k <= 1 and draw(st.integers(0, 2)) == 0:
            seq = seq[:1] + [["exp"]]  # the same defect seen through an exponential above the power
        for m in seq:
            if m[0] == "c":
                k += m[1]
        final = ["dag"]
        return {"base": base, "mods": [m for m in seq if m[0] != "dag" or True], "m": final,
                "newp": [draw(cgen.angles()) for _ in base["p"]]}
    mods = []
    heavy = 0

    def allowed(kind_mod):
        nonlocal heavy
        if not _heavy(kind_mod):
            return True
        if heavy >= max_heavy:
            return False
        if kind_mod[0] == "exp" and name in cgen.EXP_UNFRIENDLY:
            return False
        if name == "U3" or (name == "custom"):
            return False
        return True

    for _ in range(depth + 1):
        kind = draw(st.sampled_from(KINDS + ["pow", "exp"]))
        m = draw(_mod(kind, 4 - k))
        if not allowed(m):
            m = draw(_mod(draw(st.sampled_from(["dag", "c", "ipow"])), 4 - k))
        if m[0] == "pow" and sum(1 for x in mods if x[0] == "pow") >= 2:
            m = ["dag"]
        if m[0] == "pow" and m[1] < 0 and (k >= 3 or any(x[0] == "pow" and x[1] < 0 for x in mods)):
            m = ["pow", 2]
        if _heavy(m):
            heavy += 1
        if m[0] == "c":
            k += m[1]
        mods.append(m)
    final = mods.pop()
    return {"base": base, "mods": mods, "m": final, "newp": [draw(cgen.angles()) for _ in base["p"]]}


def _npm(g):
    return ref.npm(sympy.N(g.matrix, 20))


def _risky(spec):
    return any(_heavy(m) for m in spec["mods"] + [spec["m"]])


def _eval(gate, risky, timeout):
    if not risky:
        return ("ok", must(lambda: _npm(gate), "matrix"))
    return forked(lambda: _npm(gate), timeout)


def _frac_nodes(g):
    """(operand gate, exponent) of every non-integer Power node inside g."""
    from orquestra.quantum.circuits import _gates as G

    out = []
    while hasattr(g, "wrapped_gate"):
        if isinstance(g, G.Power) and float(g.exponent) != int(g.exponent):
            out.append((g.wrapped_gate, float(g.exponent)))
        g = g.wrapped_gate
    return out


def _k2_class(g, timeout):
    """g contains a non-integer power whose operand has an eigenvalue on the negative real axis."""
    from orquestra.quantum.circuits import _gates as G

    nodes = _frac_nodes(g)
    if not nodes:
        return False, 1
    has_exp_above = False
    h = g
    while hasattr(h, "wrapped_gate"):
        if isinstance(h, G.Exponential):
            has_exp_above = True
        if isinstance(h, G.Power) and float(h.exponent) != int(h.exponent):
            break
        h = h.wrapped_gate
    Q = 1
    hit = False
    for operand, p in nodes:
        Q *= Fraction(p).limit_denominator(16).denominator
        kind, W = forked(lambda: _npm(operand), timeout)
        if kind != "ok":
            continue
        ev = np.linalg.eigvals(W)
        if any(abs(l) > 1e-9 and abs(abs(np.angle(l)) - np.pi) < 1e-6 for l in ev):
            hit = True
    return hit and not has_exp_above, Q


def _k2_hit(g, timeout):
    """some non-integer power inside g has an operand with an eigenvalue on the negative real axis
    (None: an operand could not be evaluated in time, so the question stays open)"""
    unknown = False
    for operand, p in _frac_nodes(g):
        kind, W = forked(lambda: _npm(operand), timeout)
        if kind != "ok":
            unknown = True
            continue
        ev = np.linalg.eigvals(W)
        if any(abs(l) > 1e-9 and abs(abs(np.angle(l)) - np.pi) < 1e-6 for l in ev):
            return True
    return None if unknown else False


def _pushed_down_adjoint(g, timeout):
    """What the library's rule 'the adjoint of w**e is (adjoint of w)**e' gives for the adjoint of g, evaluated numerically:
    the adjoint is pushed through exp, controls and powers down to the first dagger wrapper or the base gate. It coincides
    with the true adjoint unless a non-integer power meets an eigenvalue on the negative real axis (open finding K2)."""
    from orquestra.quantum.circuits import _gates as G

    if isinstance(g, G.Exponential):
        M = _pushed_down_adjoint(g.wrapped_gate, timeout)
        return None if M is None else sl.expm(M)
    if isinstance(g, G.ControlledGate):
        M = _pushed_down_adjoint(g.wrapped_gate, timeout)
        return None if M is None else ref.controlled(M, g.num_control_qubits)
    if isinstance(g, G.Power):
        M = _pushed_down_adjoint(g.wrapped_gate, timeout)
        if M is None:
            return None
        e = float(g.exponent)
        if e == int(e):
            return np.linalg.matrix_power(M, int(e)) if e >= 0 else np.linalg.matrix_power(np.linalg.inv(M), -int(e))
        return sl.fractional_matrix_power(M, e)
    if isinstance(g, G.Dagger):
        kind, W = forked(lambda: _npm(g.wrapped_gate), timeout)
        return W if kind == "ok" else None
    kind, W = forked(lambda: _npm(g), timeout)
    # "+ 0" removes the negative zeros that conj() leaves behind (they would select the other branch of a root of -1)
    return (W.conj().T + (0 + 0j)) if kind == "ok" else None


def oracle(spec, timeout=8.0):
    g = cgen.build_gate({**spec["base"], "mods": spec["mods"]})
    m = spec["m"]
    gm = must(lambda: cgen.apply_mod(g, m), f"applying {m}")
    # meta data
    want_q = g.num_qubits + (m[1] if m[0] == "c" else 0)
    require(gm.num_qubits == want_q, lambda: f"{m} on {g}: num_qubits {gm.num_qubits}, expected {want_q}")
    require(tuple(gm.params) == tuple(g.params), lambda: f"{m} on {g}: params {gm.params} != {g.params}")
    # replace_params commutes with the modifier
    if spec["newp"]:
        newp = tuple(spec["newp"])
        a = must(lambda: gm.replace_params(newp), "replace_params on the modified gate")
        b = must(lambda: cgen.apply_mod(g.replace_params(newp), m), "modifier on the re-parametrised gate")
        require(tuple(a.params) == newp, lambda: f"replace_params gave params {a.params}")
        require(must(lambda: a == b, "gate =="), lambda: f"{m} on {g}: replace_params({newp}) gives {a}, modifying the re-parametrised gate gives {b}")
    risky = _risky(spec)
    ka, A = _eval(g, risky and any(_heavy(x) for x in spec["mods"]), timeout)
    if ka != "ok" or not np.all(np.isfinite(A)) or np.max(np.abs(A)) > 1e6:
        return {"inconclusive": "inner:" + (ka if ka != "ok" else "non-finite")}
    kb, B = _eval(gm, risky, timeout)
    if kb != "ok" or not np.all(np.isfinite(B)) or np.max(np.abs(B)) > 1e8:
        return {"inconclusive": "outer:" + (kb if kb != "ok" else "non-finite")}
    tol = 1e-7 * max(1.0, float(np.max(np.abs(A))), float(np.max(np.abs(B))))
    d = A.shape[0]
    info = {"classes": set()}
    if m[0] == "dag":
        ok = B.shape == A.shape and np.allclose(B, A.conj().T, atol=tol)
        if not ok and is_open("K2"):
            in_class, Q = _k2_class(g, timeout)
            if in_class and Q <= 64:
                BQ, AQ = np.linalg.matrix_power(B, Q), np.linalg.matrix_power(A.conj().T, Q)
                if np.allclose(BQ, AQ, atol=1e-6 * max(1.0, float(np.max(np.abs(AQ))))):
                    return {"known": "K2", "classes": ["k2_signature"], "nontrivial": False}
            # the same defect seen through further wrappers (exp above the power, ...): the reported matrix is exactly what
            # pushing the adjoint through the non-integer power gives
            hit = _k2_hit(g, timeout)
            if hit is None:
                return {"inconclusive": "k2_class_undetermined"}  # a time-out of the backend, never a violation
            if hit:
                P = _pushed_down_adjoint(g, timeout)
                if P is None:
                    return {"inconclusive": "k2_signature_unevaluated"}
                if P.shape == B.shape and np.allclose(B, P, atol=1e-6 * max(1.0, float(np.max(np.abs(P))))):
                    return {"known": "K2", "classes": ["k2_signature_pushed_down"], "nontrivial": False}
        require(ok, lambda: f"dagger of {g}: matrix is not the conjugate transpose, max|d|={ref.maxdiff(B, A.conj().T):.3g}")
    elif m[0] == "c":
        D = d * 2 ** m[1]
        R = np.eye(D, dtype=complex)
        R[D - d:, D - d:] = A
        require(B.shape == (D, D) and np.allclose(B, R, atol=tol), lambda: f"{m[1]} controls on {g}: not identity followed by the original block, max|d|={ref.maxdiff(B, R):.3g}")
    elif m[0] == "pow":
        p = m[1]
        if float(p) == int(p):
            if p >= 0:
                R = np.linalg.matrix_power(A, int(p))
                require(np.allclose(B, R, atol=tol), lambda: f"{g} ^ {p}: not the repeated product, max|d|={ref.maxdiff(B, R):.3g}")
            else:
                # B must be the inverse power: B . A^|p| = I
                P = B @ np.linalg.matrix_power(A, -int(p))
                require(np.allclose(P, np.eye(d), atol=1e-6 * max(1.0, float(np.max(np.abs(B))))), lambda: f"{g} ^ {p}: times the positive power is not the identity, max|d|={ref.maxdiff(P, np.eye(d)):.3g}")
        else:
            fr = Fraction(p).limit_denominator(16)
            L = np.linalg.matrix_power(B, fr.denominator)
            R = np.linalg.matrix_power(A, fr.numerator)
            require(np.allclose(L, R, atol=1e-6 * max(1.0, float(np.max(np.abs(R))))), lambda: f"{g} ^ {p}: ({fr.denominator})-th power of the result is not the {fr.numerator}-th power of the original, max|d|={ref.maxdiff(L, R):.3g}")
            info["classes"].add("fractional")
    elif m[0] == "exp":
        R = sl.expm(A)
        require(np.allclose(B, R, atol=1e-7 * max(1.0, float(np.max(np.abs(R))))), lambda: f"exp of {g}: not the matrix exponential, max|d|={ref.maxdiff(B, R):.3g}")
    kinds = [("pow" if x[0] == "pow" else x[0]) for x in spec["mods"]]
    mk = m[0]
    if kinds:
        info["classes"].add("pair:%s>%s" % (kinds[-1], mk))
    info["classes"].add("final:" + mk)
    if spec["base"]["g"] in ("custom", "cexact"):
        info["classes"].add("custom_base")
    if any(_heavy(x) for x in spec["mods"]) and _heavy(m):
        info["classes"].add("two_heavy")
    info["nontrivial"] = bool(spec["mods"]) or _heavy(m)
    return info


def o_probe_k2(spec):
    out = oracle(spec)
    return out


# ---------------------------------------------------------------- a gate's matrix does not depend on what was evaluated before


@st.composite
def sequences(draw, tier):
    kinds = draw(st.lists(st.sampled_from(["dag", "c", "ipow", "exp", "ipow", "c"]), min_size=1, max_size=3))
    if kinds.count("exp") > 1:
        kinds = [k for k in kinds if k != "exp"] + ["exp"]
    angle = draw(cgen.angles())
    pool = ["X", "Y", "Z", "H", "S", "SX", "I", "RX", "RY", "GPi2"] if "exp" in kinds else ["X", "Y", "Z", "H", "S", "T", "SX", "RX", "RY", "RZ", "PHASE", "GPi", "GPi2", "RH"]
    names = draw(st.lists(st.sampled_from(pool), min_size=2, max_size=4))
    k = 1
    mods = []
    for kd in kinds:
        m = draw(_mod(kd, 3 - k))
        if m[0] == "c":
            k += m[1]
        if m[0] == "pow" and m[1] < 0 and any(x[0] == "pow" for x in mods):
            m = ["pow", 2]
        mods.append(m)
    gates = [{"g": nm, "p": [angle] * cgen.TABLE[nm][1], "mods": mods} for nm in names]
    return {"gates": gates}


def o_sequence(spec):
    order = list(range(len(spec["gates"]))) + [0]
    for step, i in enumerate(order):
        gs = spec["gates"][i]
        g = cgen.build_gate(gs)
        A = must(lambda: _npm(g), f"matrix of {g}")
        R = cgen.ref_gate_matrix(gs)
        if not np.all(np.isfinite(A)):
            return {"inconclusive": "non-finite"}
        tol = 1e-7 * max(1.0, float(np.max(np.abs(R))))
        require(A.shape == R.shape and np.allclose(A, R, atol=tol),
                lambda: f"matrix of {g} (evaluated as number {step + 1} of a sequence of gates sharing modifiers) differs from its definition, max|d|={ref.maxdiff(A, R):.3g}")
    names = [x["g"] for x in spec["gates"]]
    return {"classes": ["with_exp"] if any(m[0] == "exp" for m in spec["gates"][0]["mods"]) else [], "nontrivial": len(set(names)) >= 2}


# ---------------------------------------------------------------- re-parametrising a modified gate whose matrix was already read


@st.composite
def reparam_cases(draw, tier):
    kinds = draw(st.lists(st.sampled_from(["dag", "c", "ipow", "exp", "c", "dag"]), min_size=1, max_size=3))
    if kinds.count("exp") > 1:
        kinds = [k for k in kinds if k != "exp"] + ["exp"]
    pool = ["RX", "RY", "GPi2", "XX", "YY", "MS"] if "exp" in kinds else ["RX", "RY", "RZ", "PHASE", "GPi", "GPi2", "RH", "U3", "XX", "ZZ", "CPHASE", "XY", "MS"]
    # user-defined parametric gates (not under exp: sympy cost) next to the built-in families
    if "exp" not in kinds:
        pool = pool + ["cs:rot", "cs:ph2", "cs:u2", "cs:mix", "cs:ph2"]
    nm = draw(st.sampled_from(pool))
    k = cgen.SYM_TEMPLATE_ARITY[nm[3:]][0] if nm.startswith("cs:") else cgen.TABLE[nm][0]
    mods = []
    for kd in kinds:
        m = draw(_mod(kd, 4 - k))
        if m[0] == "c":
            k += m[1]
        if m[0] == "pow" and (m[1] < 0 and (k >= 3 or nm == "U3" or any(x[0] == "pow" for x in mods)) or sum(1 for x in mods if x[0] == "pow") >= 1 and nm == "U3"):
            m = ["pow", 2]
        if m[0] == "pow" and nm.startswith("cs:"):
            m = ["dag"]  # powers of matrices with unevaluated exp(i x) entries are where sympy spends minutes
        mods.append(m)
    np_ = cgen.SYM_TEMPLATE_ARITY[nm[3:]][1] if nm.startswith("cs:") else cgen.TABLE[nm][1]
    tuples = [[draw(cgen.angles()) for _ in range(np_)] for _ in range(draw(st.integers(2, 3)))]
    if "exp" not in kinds and draw(st.integers(0, 2)) == 0:
        # (not under exp: sympy's matrix exponential can take minutes on the degenerate matrices these values give)
        # start from special parameter values (all zero, or pi): the gate may be the identity / self-adjoint there and only there
        tuples[0] = [draw(st.sampled_from([0.0, 0.0, 0, math.pi]))] * np_
    bindable = all(m[0] in ("dag", "c") for m in mods)
    return {"g": nm, "mods": mods, "tuples": tuples, "reads": [draw(st.booleans()) for _ in tuples],
            "how": [draw(st.sampled_from(["replace", "bind"] if bindable else ["replace"])) for _ in tuples]}


def _reparam_spec(nm, ps, mods):
    if nm.startswith("cs:"):
        t = nm[3:]
        return {"g": "customsym", "t": t, "f": ["fa", "fb", "fc"][: cgen.SYM_TEMPLATE_ARITY[t][1]], "p": ps, "mods": mods}
    return {"g": nm, "p": ps, "mods": mods}


def o_reparam(spec):
    nm, mods = spec["g"], spec["mods"]
    g = cgen.build_gate(_reparam_spec(nm, spec["tuples"][0], mods))
    syms = [sympy.Symbol("s%d" % i) for i in range(len(spec["tuples"][0]))]
    read_before = False
    nt = False
    for i, ps in enumerate(spec["tuples"]):
        if i > 0:
            if spec["how"][i] == "bind":
                sg = must(lambda: g.replace_params(tuple(syms)), "replace_params(symbols)")
                if spec["reads"][i]:
                    must(lambda: sg.matrix, "symbolic matrix")
                g = must(lambda: sg.bind(dict(zip(syms, ps))), "bind")
            else:
                g = must(lambda: g.replace_params(tuple(ps)), "replace_params")
            nt = nt or read_before
        require(tuple(float(x) for x in g.params) == tuple(float(x) for x in ps), lambda: f"params {g.params} after re-parametrising with {ps}")
        fresh = cgen.build_gate(_reparam_spec(nm, ps, mods))
        require(must(lambda: g == fresh, "gate =="), lambda: f"re-parametrised gate {g} != modifiers applied to the gate built with the new parameters {fresh}")
        if spec["reads"][i] or i == len(spec["tuples"]) - 1:
            A = must(lambda: _npm(g), f"matrix of {g}")
            R = cgen.ref_gate_matrix(_reparam_spec(nm, ps, mods))
            if not np.all(np.isfinite(A)):
                return {"inconclusive": "non-finite"}
            tol = 1e-7 * max(1.0, float(np.max(np.abs(R))))
            require(A.shape == R.shape and np.allclose(A, R, atol=tol),
                    lambda: f"{g} obtained by {spec['how'][i]} (step {i}) has the matrix of other parameters: differs from its definition by {ref.maxdiff(A, R):.3g}")
            read_before = True
    return {"classes": (["with_exp"] if any(m[0] == "exp" for m in mods) else []) + (["user_defined_parametric"] if nm.startswith("cs:") else []), "nontrivial": nt}


PAIRS = ["pair:%s>%s" % (a, b) for a in KINDS for b in KINDS]

SUBCHECKS = [
    SubCheck("one_step", oracle, strategy=chains, examples=(110, 500), shards=(16, 16), timeout=(900, 3000),
             rule="one-step relation between the library's matrix of g and of g.m for every modifier m; classes pair:<a>><b> = last modifier of g, final modifier"),
    SubCheck("probe_K2", o_probe_k2, strategy=lambda t: chains(t, k2_class=True), examples=(40, 150), shards=(2, 4),
             rule="open finding K2: flagged self-adjoint base, non-integer power, optional controls, then dagger; accepted only when it holds or shows the recorded signature"),
]
SUBCHECKS.append(SubCheck("evaluation_history", o_sequence, strategy=sequences, examples=(60, 400), shards=(6, 12), fork_timeout=60,
                          rule="2..4 gates sharing the same modifier chain and parameters but different bases, evaluated one after another in one process "
                               "(first one again at the end): each matrix equals the closed-form reference regardless of what was evaluated before"))
SUBCHECKS.append(SubCheck("reparam_history", o_reparam, strategy=reparam_cases, examples=(60, 400), shards=(6, 12), fork_timeout=60,
                          rule="a modified parametric gate re-parametrised 1-2 times (replace_params, or bind of a symbolic instance) with its matrix read in between: "
                               "each gate equals the modifiers applied to the freshly built gate and has the closed-form matrix of its own parameters; non-trivial = re-parametrised after a matrix read"))
SUBCHECKS[0].expected_classes = PAIRS + ["fractional", "custom_base"]
