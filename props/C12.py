"""C12 - a wavefunction object is normalised after every operation on it."""
import cmath
import io
import math
import os
import tempfile

import numpy as np
import sympy
from hypothesis import strategies as st
from hypothesis.stateful import initialize, precondition, rule

from vlib import ref
from vlib.harness import SubCheck, Violation, make_trace_machine, must, must_raise, require

PROPERTY_ID = "C12"
TECHNIQUE = 'stateful property-based testing (Hypothesis RuleBasedStateMachine with a list model; rejected and accepted mutations) + exhaustive Dicke/flip enumeration'
RULE = (
    "Stateful: a Wavefunction (numeric numpy vector, or symbolic with bare symbols a..d at drawn "
    "positions) and a Python-list model; rules = phase-rotating assignment (must be accepted), clearly "
    "breaking assignment (must raise, object unchanged), symbol / number assignment into a symbolic "
    "vector (accepted iff the numeric part stays <= 1, resp. == 1 when it becomes fully numeric), "
    "partial / total-valid / total-invalid binding, reading probabilities; after every step amplitudes "
    "== model, length is a power of two, numeric vectors sum to 1, symbolic ones have numeric part <= 1. "
    "Plain checks: constructor refusals, Dicke states for all (n, k) with n <= 10 (12 thorough), "
    "flip = bit reversal and an involution, save/load. Non-trivial history: a rejected mutation "
    "followed by an accepted one."
)
ASSUMPTIONS = [
    "assigned values are clearly valid (deviation < 1e-9) or clearly invalid (> 1e-3 off); nothing is asserted in between",
    "symbolic entries are bare symbols; amplitudes are read through the public __getitem__/__len__",
    "assigning a symbol into a purely numeric (numpy-backed) wavefunction may be refused with any exception (object unchanged) or accepted",
    "slice assignment of a flat list is required to be accepted only for wavefunctions created from numbers (flat numpy vector); "
    "for vectors that were created symbolic or produced by bind (sympy column / (N,1) array) a refusal with the object unchanged is accepted too - the statement promises validity, not acceptance",
]

SYMS = ["a", "b", "c", "d"]


def _is_sym(x):
    return isinstance(x, sympy.Basic) and bool(x.free_symbols)


def _read(wf):
    out = []
    for i in range(len(wf)):
        x = wf[i]
        if isinstance(x, np.ndarray):  # a bound wavefunction may hold an (N, 1) column
            x = x.ravel()[0]
        out.append(x if _is_sym(x) else complex(x))
    return out


def _same(a, b, tol=1e-12):
    if len(a) != len(b):
        return False
    for x, y in zip(a, b):
        if _is_sym(x) or _is_sym(y):
            if not (_is_sym(x) and _is_sym(y) and sympy.sympify(x) == sympy.sympify(y)):
                return False
        elif abs(complex(x) - complex(y)) > tol:
            return False
    return True


def _numeric_mass(model, skip=None):
    return sum(abs(complex(x)) ** 2 for j, x in enumerate(model) if j != skip and not _is_sym(x))


def _dicke_model(n, k):
    idx = [i for i in range(2 ** n) if bin(i).count("1") == k]
    amp = 1 / math.sqrt(len(idx))
    return [complex(amp) if i in idx else 0j for i in range(2 ** n)]


def machine(on_end, expired):
    from orquestra.quantum.wavefunction import Wavefunction

    Base = make_trace_machine(on_end, expired)

    class WfMachine(Base):
        def __init__(self):
            super().__init__()
            self.wf = None
            self.model = None
            self.seq = []
            self.ctor = None
            self.column = False  # the vector is a sympy column / (N, 1) array (created symbolic, or bound)

        # -- helpers
        def _note(self, kind):
            self.seq.append(kind)
            self.info["classes"].add(kind)
            if "rej" in self.seq and "ok" in self.seq[self.seq.index("rej"):]:
                self.info["nontrivial"] = True
                self.info["classes"].add("rejected_then_accepted")

        def _unchanged(self, before, what):
            require(_same(_read(self.wf), before, 0.0), lambda: f"{what}: object changed although the operation was refused: {before} -> {_read(self.wf)}")

        def inv(self):
            if self.wf is None:
                return
            got = _read(self.wf)
            require(_same(got, self.model), lambda: f"amplitudes {got} differ from the model {self.model}")
            n = len(self.wf)
            require(n >= 1 and n & (n - 1) == 0, lambda: f"length {n} is not a power of two")
            # every public view reports the entries the object holds now (not a value remembered from an earlier read)
            amps = must(lambda: self.wf.amplitudes, "amplitudes")
            view = [x if _is_sym(x) else complex(x) for x in (np.ravel(np.asarray(amps, dtype=object)) if not isinstance(amps, sympy.MatrixBase) else list(amps))]
            require(_same(view, self.model), lambda: f".amplitudes {view} differ from the entries {self.model}")
            it = [x if _is_sym(x) else complex(np.ravel(np.asarray(x, dtype=object))[0]) for x in list(iter(self.wf))]
            require(_same(it, self.model), lambda: f"iterating the wavefunction gives {it}, entries are {self.model}")
            if any(_is_sym(x) for x in got):
                probs = list(np.ravel(np.asarray(must(self.wf.get_probabilities, "get_probabilities"), dtype=object)))
                require(len(probs) == n, "get_probabilities has the wrong length")
                vals = {sympy.Symbol(nm): complex(0.3 + 0.1 * k, 0.2 - 0.05 * k) for k, nm in enumerate(SYMS)}
                for pj, xj in zip(probs, got):
                    want = abs(complex(sympy.sympify(xj).subs(vals))) ** 2
                    have = complex(sympy.sympify(pj).subs(vals))
                    require(abs(have - want) <= 1e-9, lambda: f"probability {pj} is not the squared magnitude of the entry {xj}")
            mass = _numeric_mass(got)
            # "the object still satisfies this": the entries it holds now would be accepted by the constructor
            if any(_is_sym(x) for x in got):
                require(mass <= 1 + 2e-5, lambda: f"numeric part of a symbolic wavefunction has mass {mass} > 1")
                require(bool(self.wf.free_symbols), "free_symbols empty for a symbolic wavefunction")
                must(lambda: Wavefunction(list(got)), f"creating a wavefunction from the entries the object holds now ({got})")
            else:
                require(abs(mass - 1) <= 2e-5, lambda: f"numeric wavefunction has total probability {mass}")
                must(lambda: Wavefunction(np.array(got, dtype=complex)), f"creating a wavefunction from the entries the object holds now (total probability {mass!r})")
                p = np.ravel(np.asarray(must(self.wf.get_probabilities, "get_probabilities"), dtype=float))
                require(np.allclose(p, [abs(x) ** 2 for x in got], rtol=0, atol=1e-12) and abs(p.sum() - mass) <= 1e-9,
                        lambda: f"probabilities {p} are not the squared magnitudes")

        # -- rules
        @initialize(n=st.integers(1, 3), seed=st.integers(0, 10 ** 6),
                    sym=st.lists(st.tuples(st.integers(0, 7), st.sampled_from(SYMS)), max_size=4),
                    as_list=st.booleans(), ctor=st.sampled_from(["vector", "vector", "vector", "dicke", "zero"]))
        def init(self, n, seed, sym, as_list, ctor="vector"):
            def go():
                N = 2 ** n
                if ctor == "dicke":
                    k = seed % (n + 1)
                    self.wf = must(lambda: Wavefunction.dicke_state(n, k), "dicke_state")
                    self.model = _dicke_model(n, k)
                    self.ctor = ("dicke", n, k)
                    self.info["classes"].add("from_dicke_state")
                    return
                if ctor == "zero":
                    self.wf = must(lambda: Wavefunction.zero_state(n), "zero_state")
                    self.model = [1 + 0j] + [0j] * (N - 1)
                    self.ctor = ("zero", n, 0)
                    self.info["classes"].add("from_zero_state")
                    return
                rs = np.random.RandomState(seed)
                v = rs.normal(size=N) + 1j * rs.normal(size=N)
                v = v / np.linalg.norm(v)
                model = [complex(x) for x in v]
                for pos, s in sym:
                    model[pos % N] = sympy.Symbol(s)
                symbolic = any(_is_sym(x) for x in model)
                arg = list(model) if (symbolic or as_list) else np.array(model)
                self.wf = must(lambda: Wavefunction(arg), "Wavefunction(...)")
                self.model = model
                self.column = symbolic  # sympy column matrix: flat lists are refused for slices (shape error)
                self.info["classes"].add("symbolic" if symbolic else "numeric")
            self.step("init", {"n": n, "seed": seed, "sym": [list(x) for x in sym], "as_list": as_list, "ctor": ctor}, go)

        @rule(n=st.integers(1, 3), k=st.integers(0, 3), same=st.booleans())
        def fresh_constructor(self, n, k, same):
            """the named constructors keep returning their documented state, whatever happened to
            wavefunctions they returned earlier"""
            def go():
                nn, kk = n, k % (n + 1)
                kind = "dicke"
                if same and self.ctor is not None:
                    kind, nn, kk = self.ctor
                if kind == "dicke":
                    w = must(lambda: Wavefunction.dicke_state(nn, kk), "dicke_state")
                    want = _dicke_model(nn, kk)
                else:
                    w = must(lambda: Wavefunction.zero_state(nn), "zero_state")
                    want = [1 + 0j] + [0j] * (2 ** nn - 1)
                require(_same(_read(w), want), lambda: f"{kind}_state({nn},{kk}) returned {_read(w)} after earlier wavefunctions were edited; expected {want}")
                if self.ctor is not None and same and "ok" in self.seq:
                    self.info["classes"].add("constructor_again_after_edit")
            self.step("fresh_constructor", {"n": n, "k": k, "same": same}, go)

        @rule(i=st.integers(0, 7), ln=st.integers(1, 4), angle=st.floats(0, 6.28, allow_nan=False), rev=st.booleans())
        def slice_ok(self, i, ln, angle, rev):
            def go():
                if any(_is_sym(x) for x in self.model):
                    return
                N = len(self.model)
                a = i % N
                b = min(N, a + ln)
                vals = [x * cmath.exp(1j * angle) for x in self.model[a:b]]
                if rev:
                    vals = vals[::-1]
                if self.column:
                    # a fully bound wavefunction holds an (N, 1) column: numpy refuses a flat list for
                    # a slice of it (shape error). The statement does not promise that every valid
                    # assignment is accepted, only that the object stays valid and unchanged.
                    before = _read(self.wf)
                    try:
                        self.wf[a:b] = vals
                    except Exception:  # noqa: BLE001
                        self._unchanged(before, "refused slice assignment on a bound (column) vector")
                        self.info["classes"].add("slice_refused_on_bound_column")
                        return
                else:
                    must(lambda: self.wf.__setitem__(slice(a, b), vals), "norm-preserving slice assignment")
                self.model[a:b] = [complex(x) for x in vals]
                self._note("ok")
                self.info["classes"].add("slice_assignment")
            self.step("slice_ok", {"i": i, "ln": ln, "angle": angle, "rev": rev}, go)

        @rule(i=st.integers(0, 7), ln=st.integers(1, 4), mag=st.sampled_from([1.5, -2.0, 0.9]))
        def slice_break(self, i, ln, mag):
            def go():
                if any(_is_sym(x) for x in self.model):
                    return
                N = len(self.model)
                a = i % N
                b = min(N, a + ln)
                vals = [mag] * (b - a)
                tot = _numeric_mass(self.model) - sum(abs(x) ** 2 for x in self.model[a:b]) + sum(abs(x) ** 2 for x in vals)
                if abs(tot - 1) <= 1e-3:
                    return
                before = _read(self.wf)
                if self.column:
                    try:
                        self.wf[a:b] = vals
                    except Exception:  # noqa: BLE001 - shape error or normalisation error, see slice_ok
                        pass
                    else:
                        raise Violation(f"slice assignment of {vals} (total probability {tot}) was accepted")
                else:
                    must_raise(Exception, lambda: self.wf.__setitem__(slice(a, b), vals), f"slice assignment of {vals} (total probability {tot})")
                self._unchanged(before, "breaking slice assignment")
                self._note("rej")
                self.info["classes"].add("slice_assignment")
            self.step("slice_break", {"i": i, "ln": ln, "mag": mag}, go)

        @rule(i=st.integers(0, 7), angle=st.floats(0, 6.28, allow_nan=False))
        def phase(self, i, angle):
            def go():
                k = i % len(self.model)
                if _is_sym(self.model[k]):
                    return
                val = self.model[k] * cmath.exp(1j * angle)
                must(lambda: self.wf.__setitem__(k, val), "norm-preserving assignment")
                self.model[k] = complex(val)
                self._note("ok")
            self.step("phase", {"i": i, "angle": angle}, go)

        @rule(i=st.integers(0, 7), d=st.sampled_from([4e-6, 4e-6, -4e-6, 2e-6, 3e-6, -3e-6, 8e-7]))
        def nudge(self, i, d):
            """An entry rescaled by 1+d: a change of the total probability that is tiny, possibly within the library's
            tolerance. Whether it is accepted is the library's decision; either way the object must stay valid
            (checked by the invariant: its entries are accepted by the constructor) and a refusal must change nothing."""
            def go():
                if any(_is_sym(x) for x in self.model):
                    return
                N = len(self.model)
                k = max(range(N), key=lambda j: (abs(self.model[(j + i) % N]) > 0.3, -j))
                k = (k + i) % N
                val = self.model[k] * (1 + d)
                before = _read(self.wf)
                try:
                    self.wf[k] = val
                except Exception:  # noqa: BLE001 - refused: fine, but then nothing may have changed
                    self._unchanged(before, "refused small rescaling")
                    self.info["classes"].add("nudge_refused")
                    return
                self.model[k] = complex(val)
                self.info["classes"].add("nudge_accepted")
                self._note("ok")
            self.step("nudge", {"i": i, "d": d}, go)

        @rule()
        def flip(self):
            """continue the history on the qubit-reversed wavefunction (a wavefunction like any other)"""
            def go():
                from orquestra.quantum.wavefunction import flip_wavefunction

                N = len(self.model)
                nq = N.bit_length() - 1
                perm = [int(format(j, "0%db" % nq)[::-1], 2) if nq else 0 for j in range(N)]
                w = must(lambda: flip_wavefunction(self.wf), "flip_wavefunction")
                self._unchanged(_read(self.wf), "flip_wavefunction (argument)")
                self.wf = w
                self.model = [self.model[perm[j]] for j in range(N)]
                if any(_is_sym(x) for x in self.model):
                    self.column = True
                self.info["classes"].add("flipped")
            self.step("flip", {}, go)

        @rule(i=st.integers(0, 7), mag=st.sampled_from([1.5, 2.5, -3.0, 10.0, 1e160, -3e200, 1e155j]))
        def break_(self, i, mag):
            def go():
                k = i % len(self.model)
                before = _read(self.wf)
                must_raise(Exception, lambda: self.wf.__setitem__(k, mag), f"assignment of {mag} (breaks normalisation)")
                self._unchanged(before, "breaking assignment")
                self._note("rej")
            self.step("break_", {"i": i, "mag": mag}, go)

        @rule(i=st.integers(0, 7), s=st.sampled_from(SYMS))
        def put_symbol(self, i, s):
            def go():
                k = i % len(self.model)
                sym = sympy.Symbol(s)
                before = _read(self.wf)
                if any(_is_sym(x) for x in self.model):
                    must(lambda: self.wf.__setitem__(k, sym), "symbol into a symbolic wavefunction")
                    self.model[k] = sym
                    self._note("ok")
                else:
                    try:
                        self.wf[k] = sym
                    except Exception:  # noqa: BLE001 - refusal of any kind is allowed here, see ASSUMPTIONS
                        self._unchanged(before, "symbol into a numeric wavefunction")
                        self._note("rej")
                    else:
                        self.model[k] = sym
                        self._note("ok")
            self.step("put_symbol", {"i": i, "s": s}, go)

        @rule(i=st.integers(0, 7), val=st.sampled_from([0.05, 0.3, 0.9, 1.5, 0.0]), exact=st.booleans())
        def put_number(self, i, val, exact):
            def go():
                if not any(_is_sym(x) for x in self.model):
                    return
                k = i % len(self.model)
                others = _numeric_mass(self.model, skip=k)
                remaining = any(_is_sym(x) for j, x in enumerate(self.model) if j != k)
                v = val
                if exact and not remaining and others < 1:
                    v = math.sqrt(1 - others)  # completes the vector exactly
                tot = others + abs(v) ** 2
                if remaining:
                    if abs(tot - 1) <= 1e-3:
                        return
                    should_ok = tot < 1
                else:
                    if 1e-9 < abs(tot - 1) <= 1e-3:
                        return
                    should_ok = abs(tot - 1) <= 1e-9
                before = _read(self.wf)
                if should_ok:
                    must(lambda: self.wf.__setitem__(k, v), f"assignment of {v} (numeric mass {tot})")
                    self.model[k] = complex(v)
                    self._note("ok")
                    if not remaining:
                        self.info["classes"].add("became_numeric_by_assignment")
                else:
                    must_raise(Exception, lambda: self.wf.__setitem__(k, v), f"assignment of {v} (numeric mass {tot})")
                    self._unchanged(before, "rejected number")
                    self._note("rej")
            self.step("put_number", {"i": i, "val": val, "exact": exact}, go)

        @rule(which=st.integers(0, 3), val=st.sampled_from([0.01, 0.0, -0.02, 0.01j]))
        def bind_partial(self, which, val):
            def go():
                fs = sorted({x for x in self.model if _is_sym(x)}, key=str)
                if len(fs) < 2:
                    return
                s = fs[which % len(fs)]
                v = complex(val) if isinstance(val, str) else val
                cnt = sum(1 for x in self.model if _is_sym(x) and x == s)
                if _numeric_mass(self.model) + cnt * abs(v) ** 2 > 1 - 1e-3:
                    return
                before = _read(self.wf)
                w2 = must(lambda: self.wf.bind({s: v}), "partial bind")
                self._unchanged(before, "bind (receiver)")
                self.wf = w2
                self.model = [complex(v) if (_is_sym(x) and x == s) else x for x in self.model]
                if not any(_is_sym(x) for x in self.model):
                    self.column = True
                self._note("ok")
                self.info["classes"].add("bind_partial")
            self.step("bind_partial", {"which": which, "val": val if not isinstance(val, complex) else str(val)}, go)

        @rule(extra=st.booleans())
        def bind_total_valid(self, extra):
            def go():
                pos = [j for j, x in enumerate(self.model) if _is_sym(x)]
                if not pos:
                    w2 = must(lambda: self.wf.bind({sympy.Symbol("a"): 0.5}), "bind on a numeric wavefunction")
                    require(_same(_read(w2), self.model), "bind on a numeric wavefunction changed it")
                    return
                r = 1 - _numeric_mass(self.model)
                if r < 0:
                    return
                amp = math.sqrt(r / len(pos))
                m = {s: amp for s in {self.model[j] for j in pos}}
                if extra:
                    m[sympy.Symbol("unused")] = 7.0
                before = _read(self.wf)
                w2 = must(lambda: self.wf.bind(m), "total bind to a normalised vector")
                self._unchanged(before, "bind (receiver)")
                self.wf = w2
                self.column = True
                self.model = [complex(amp) if _is_sym(x) else x for x in self.model]
                self._note("ok")
                self.info["classes"].add("bind_total")
            self.step("bind_total_valid", {"extra": extra}, go)

        @rule(val=st.sampled_from([3.0, 1.2, -2.0]))
        def bind_total_invalid(self, val):
            def go():
                fs = {x for x in self.model if _is_sym(x)}
                if not fs:
                    return
                before = _read(self.wf)
                must_raise(Exception, lambda: self.wf.bind({s: val for s in fs}), f"binding all symbols to {val}")
                self._unchanged(before, "rejected bind")
                self._note("rej")
            self.step("bind_total_invalid", {"val": val}, go)

    return WfMachine


# ---------------------------------------------------------------- plain sub-checks


@st.composite
def ctor_cases(draw, tier):
    kind = draw(st.sampled_from(["bad_len", "unnormalised", "ok", "sym_over", "sym_ok"]))
    n = draw(st.integers(1, 4))
    return {"kind": kind, "n": n, "len": draw(st.sampled_from([0, 3, 5, 6, 7, 9, 10, 12, 15, 17])),
            "seed": draw(st.integers(0, 10 ** 6)), "scale": draw(st.sampled_from([0.5, 0.9, 1.1, 2.0, 0.0])),
            "container": draw(st.sampled_from(["ndarray", "list", "tuple"]))}


def o_ctor(spec):
    from orquestra.quantum.wavefunction import Wavefunction

    rs = np.random.RandomState(spec["seed"])
    N = 2 ** spec["n"]
    v = rs.normal(size=N) + 1j * rs.normal(size=N)
    v = v / np.linalg.norm(v)
    conv = {"ndarray": np.array, "list": list, "tuple": tuple}[spec["container"]]
    k = spec["kind"]
    if k == "bad_len":
        L = spec["len"]
        w = np.ones(L) / math.sqrt(max(L, 1))
        must_raise(Exception, lambda: Wavefunction(conv(w)), f"vector of length {L}")
    elif k == "unnormalised":
        must_raise(Exception, lambda: Wavefunction(conv(v * spec["scale"])), f"vector with norm {spec['scale']}")
    elif k == "ok":
        wf = must(lambda: Wavefunction(conv(v)), "normalised vector")
        require(len(wf) == N and wf.n_qubits == spec["n"], "length / n_qubits wrong")
        p = np.ravel(wf.get_probabilities())
        require(np.allclose(p, np.abs(v) ** 2, rtol=0, atol=1e-12) and abs(p.sum() - 1) < 1e-9, "probabilities are not the squared magnitudes")
    else:
        model = [complex(x) for x in v]
        model[0] = sympy.Symbol("a")
        if k == "sym_over":
            model[1 % N] = 1.2 if N > 1 else sympy.Symbol("a")
            if N == 1:
                return {"nontrivial": False}
            must_raise(Exception, lambda: Wavefunction(model), "symbolic vector whose numeric part exceeds 1")
        else:
            wf = must(lambda: Wavefunction(model), "symbolic vector with numeric part <= 1")
            require(wf.free_symbols == {sympy.Symbol("a")}, "free symbols wrong")
    return {"classes": ["kind:" + k], "nontrivial": k != "ok"}


def enum_dicke(tier):
    top = 10 if tier == "quick" else 12
    for n in range(1, top + 1):
        for k in range(-1, n + 2):
            yield {"n": n, "k": k}


def o_dicke(spec):
    from orquestra.quantum.wavefunction import Wavefunction

    n, k = spec["n"], spec["k"]
    if k < 0 or k > n:
        must_raise(Exception, lambda: Wavefunction.dicke_state(n, k), f"dicke_state({n},{k})")
        return {"nontrivial": False}
    wf = must(lambda: Wavefunction.dicke_state(n, k), f"dicke_state({n},{k})")
    p = np.ravel(np.asarray(wf.get_probabilities(), dtype=float))
    require(len(p) == 2 ** n, "wrong length")
    sup = [i for i in range(2 ** n) if bin(i).count("1") == k]
    nz = [i for i in range(2 ** n) if p[i] > 1e-15]
    require(nz == sup, lambda: f"dicke_state({n},{k}) is supported on {len(nz)} states, expected the {len(sup)} states of weight {k}")
    require(np.allclose(p[sup], 1.0 / len(sup), rtol=0, atol=1e-12), "Dicke probabilities are not equal")
    return {"nontrivial": 0 < k < n}


@st.composite
def flip_cases(draw, tier):
    return {"n": draw(st.integers(0, 8 if tier == "quick" else 10)), "seed": draw(st.integers(0, 10 ** 6)),
            "as_list": draw(st.booleans())}


def o_flip(spec):
    from orquestra.quantum.wavefunction import Wavefunction, flip_amplitudes, flip_wavefunction

    n = spec["n"]
    rs = np.random.RandomState(spec["seed"])
    v = rs.normal(size=2 ** n) + 1j * rs.normal(size=2 ** n)
    v = v / np.linalg.norm(v)
    arg = list(v) if spec["as_list"] else v.copy()
    f = np.asarray(must(lambda: flip_amplitudes(arg), "flip_amplitudes"))
    perm = ref.bit_reverse_perm(n)
    require(np.array_equal(f, v[perm]), "flip_amplitudes is not the bit-reversal permutation")
    require(np.array_equal(np.asarray(flip_amplitudes(f)), v), "flip_amplitudes is not its own inverse")
    require(np.array_equal(np.asarray(arg), v), "flip_amplitudes modified its argument")
    if n >= 1:
        w = Wavefunction(v.copy())
        fw = must(lambda: flip_wavefunction(w), "flip_wavefunction")
        require(np.array_equal(np.asarray(fw.amplitudes), v[perm]) and np.array_equal(np.asarray(w.amplitudes), v), "flip_wavefunction wrong or mutating")
    return {"nontrivial": n >= 2}


@st.composite
def io_cases(draw, tier):
    return {"n": draw(st.integers(1, 5)), "seed": draw(st.integers(0, 10 ** 6)),
            "real": draw(st.booleans()), "via": draw(st.sampled_from(["path", "file"]))}


def o_io(spec):
    from orquestra.quantum.wavefunction import Wavefunction, load_wavefunction, save_wavefunction

    rs = np.random.RandomState(spec["seed"])
    N = 2 ** spec["n"]
    v = rs.normal(size=N) + (0 if spec["real"] else 1j * rs.normal(size=N))
    v = (v / np.linalg.norm(v)).astype(complex)
    wf = Wavefunction(v.copy())
    with tempfile.TemporaryDirectory() as d:
        path = os.path.join(d, "wf.json")
        must(lambda: save_wavefunction(wf, path), "save_wavefunction")
        if spec["via"] == "path":
            back = must(lambda: load_wavefunction(path), "load_wavefunction(path)")
        else:
            with open(path) as f:
                back = must(lambda: load_wavefunction(f), "load_wavefunction(file)")
    require(np.array_equal(np.asarray(back.amplitudes), v), lambda: f"amplitudes changed by save/load, max|d|={np.max(np.abs(np.asarray(back.amplitudes) - v)):.3g}")
    require(np.array_equal(np.asarray(wf.amplitudes), v), "save modified the wavefunction")
    return {"classes": ["real" if spec["real"] else "complex", "via:" + spec["via"]], "nontrivial": not spec["real"]}


SUBCHECKS = [
    SubCheck("history", None, machine=machine, examples=(400, 2500), shards=(6, 16), steps=(20, 40),
             rule="state machine over assignments and bindings; invariant after every step; non-trivial = rejected then accepted"),
    SubCheck("constructor", o_ctor, strategy=ctor_cases, examples=(300, 1500), shards=(1, 4),
             rule="constructor refuses non-power-of-two lengths and unnormalised vectors"),
    SubCheck("dicke", o_dicke, enumerate=enum_dicke, exhaustive=True, shards=(2, 4),
             rule="dicke_state(n, k) for all n <= 10 (12), k in -1..n+1: support = weight-k states, equal probabilities"),
    SubCheck("flip", o_flip, strategy=flip_cases, examples=(200, 1000), shards=(1, 4),
             rule="flip_amplitudes = bit reversal, involution"),
    SubCheck("save_load", o_io, strategy=io_cases, examples=(150, 600), shards=(1, 4),
             rule="save_wavefunction / load_wavefunction return the same amplitudes"),
]
SUBCHECKS[0].expected_classes = ["symbolic", "numeric", "rejected_then_accepted", "bind_partial", "bind_total", "became_numeric_by_assignment",
                                  "from_dicke_state", "from_zero_state", "constructor_again_after_edit", "slice_assignment"]
