"""C17 - outcome distributions stay normalised; marginals and distances obey their laws."""
import copy
import math
import os
import tempfile

import numpy as np
from hypothesis import strategies as st

from vlib.harness import SubCheck, must, must_raise, require

PROPERTY_ID = "C17"
TECHNIQUE = 'property-based testing (Hypothesis) against dict-accumulated marginals and kernel/entropy reference formulas; invalid-input refusal checks'
RULE = (
    "Dictionaries of 1..12 equal-length outcome keys (bit tuples, bit strings, comma strings, tuples of "
    "small and multi-digit ints), finite weights in [0, 1e6] not all zero; invalid inputs (empty, "
    "negative, unequal key lengths, all-zero); qubit lists = ordered subsets in any order (plus "
    "out-of-range / duplicate lists); pairs of bit distributions on the same width; scalar and list "
    "kernel widths; clipping constants. Oracle: pure-Python normalisation, dict-accumulated marginal, "
    "symmetry / sign laws, Gibbs' inequality with the clipping slack, save -> load equality. "
    "Non-trivial: a marginal merging >= 2 source outcomes with a non-identity qubit order; distance "
    "pairs with different supports."
)
ASSUMPTIONS = [
    "weights are finite Python floats/ints; sums stay far from the under/overflow range",
    "MMD and the divergences are evaluated on bit-valued outcomes (the MMD kernel reads outcomes as binary numbers)",
    "CNLL lower bound: CNLL(p, q) >= H(p) - K * eps - 1e-9 with K = number of outcomes in the union of supports",
]


def _keys(draw, n, k, values):
    lo = draw(st.sampled_from([1, 2, 3])) if len(values) ** n >= 3 else 1
    return draw(st.lists(st.tuples(*[st.sampled_from(values)] * n), min_size=min(lo, k), max_size=k, unique=True))


@st.composite
def dist_spec(draw, bits_only=False, max_keys=12):
    n = draw(st.sampled_from([1, 2, 2, 3, 3, 4]))
    values = [0, 1] if bits_only or draw(st.integers(0, 2)) else draw(st.sampled_from([[0, 1, 2, 3], [0, 1, 12, 7], [10, 3, 255]]))
    keys = _keys(draw, n, max_keys, values)
    w = st.one_of(st.floats(1e-9, 1, allow_nan=False), st.sampled_from([0.0, 1.0, 0.25, 1e-9]), st.floats(1e-9, 1e6, allow_nan=False), st.integers(0, 50))
    ws = [draw(w) for _ in keys]
    if sum(ws) <= 0:
        ws[0] = 1.0
    bits = all(v in (0, 1) for k in keys for v in k)
    form = draw(st.sampled_from(["tuple", "tuple", "str" if bits else "comma", "comma"]))
    return {"n": n, "keys": [list(k) for k in keys], "w": ws, "form": form}


def _input(spec):
    d = {}
    for k, w in zip(spec["keys"], spec["w"]):
        if spec["form"] == "tuple":
            d[tuple(k)] = w
        elif spec["form"] == "str":
            d["".join(map(str, k))] = w
        else:
            d[",".join(map(str, k)) + ("," if len(k) == 1 else "")] = w
    return d


def _ref_probs(spec):
    s = sum(spec["w"])
    return {tuple(k): w / s for k, w in zip(spec["keys"], spec["w"])}


def _check_norm(dd, refp, what):
    require(set(dd) == set(refp), lambda: f"{what}: keys {sorted(dd)} != {sorted(refp)}")
    require(all(v >= 0 for v in dd.values()), lambda: f"{what}: negative probability")
    require(abs(sum(dd.values()) - 1) <= 1e-9, lambda: f"{what}: probabilities sum to {sum(dd.values())}")
    for k, p in refp.items():
        require(abs(dd[k] - p) <= 1e-12 + 1e-9 * p, lambda: f"{what}: P{k} = {dd[k]}, expected {p} (proportions not preserved)")


@st.composite
def marg_cases(draw, tier):
    d = draw(dist_spec())
    n = d["n"]
    qs = draw(st.permutations(list(range(n))))
    qs = list(qs[: draw(st.integers(1, n))])
    more = []
    for _ in range(draw(st.integers(1, 3))):
        p = list(draw(st.permutations(list(range(n)))))
        more.append(p[: draw(st.integers(1, n))])
    if draw(st.booleans()):
        more.append(list(reversed(qs)))  # the same qubits in another order
    return {"d": d, "qs": qs, "more": more, "bad": draw(st.sampled_from([None, None, "range", "dup"])), "normalize": draw(st.sampled_from([True, True, False]))}


def o_marginal(spec):
    from orquestra.quantum.distributions import MeasurementOutcomeDistribution

    import warnings

    d = spec["d"]
    inp = _input(d)
    inp_snapshot = copy.deepcopy(inp)
    with warnings.catch_warnings():
        warnings.simplefilter("ignore")
        dist = must(lambda: MeasurementOutcomeDistribution(inp, spec["normalize"]), "MeasurementOutcomeDistribution(...)")
    require(inp == inp_snapshot, "the constructor modified the dictionary it was given")
    total = sum(d["w"])
    if spec["normalize"] or math.isclose(total, 1):
        refp = _ref_probs(d)
        _check_norm(dist.distribution_dict, refp, "constructor")
    else:
        refp = {tuple(k): w for k, w in zip(d["keys"], d["w"])}
        require(dist.distribution_dict == refp, "normalize=False changed the values")
    require(dist.get_number_of_subsystems() == d["n"], "number of subsystems wrong")
    src = copy.deepcopy(dist.distribution_dict)
    qs = spec["qs"]
    with warnings.catch_warnings():
        warnings.simplefilter("ignore")
        sub = must(lambda: dist.subdistribution(list(qs)), f"subdistribution({qs})")
    want = {}
    for k, p in refp.items():
        nk = tuple(k[i] for i in qs)
        want[nk] = want.get(nk, 0) + p
    got = sub.distribution_dict
    require(set(got) == set(want), lambda: f"marginal on {qs}: outcomes {sorted(got)} != {sorted(want)}")
    scale = max(1.0, max(want.values()))
    for k, p in want.items():
        require(abs(got[k] - p) <= 1e-9 * scale, lambda: f"marginal on {qs}: P{k} = {got[k]}, expected the accumulated {p}")
    require(dist.distribution_dict == src, lambda: f"subdistribution changed the source distribution: {src} -> {dist.distribution_dict}")
    # further marginals of the same object (other subsets, the same qubits in another order)
    for q2 in spec.get("more", []):
        with warnings.catch_warnings():
            warnings.simplefilter("ignore")
            sub2 = must(lambda: dist.subdistribution(list(q2)), f"subdistribution({q2}) after subdistribution({qs})")
        want2 = {}
        for k, p in refp.items():
            nk = tuple(k[i] for i in q2)
            want2[nk] = want2.get(nk, 0) + p
        got2 = sub2.distribution_dict
        require(set(got2) == set(want2) and all(abs(got2[k] - p) <= 1e-9 * max(1.0, max(want2.values())) for k, p in want2.items()),
                lambda: f"marginal on {q2} requested after the marginal on {qs}: {got2}, expected {want2}")
        require(dist.distribution_dict == src, "a later subdistribution changed the source distribution")
    # qubit lists outside the statement's domain (out of range / duplicates): whatever the library does with them
    # (it refuses them today), the source must stay intact
    bad_list = [0, d["n"]] if spec["bad"] == "range" else ([0, 0] if spec["bad"] == "dup" else None)
    if bad_list is not None:
        try:
            dist.subdistribution(bad_list)
        except Exception:  # noqa: BLE001 - refusal is fine, and so is acceptance: not claimed by the property
            pass
    require(dist.distribution_dict == src, "a subdistribution call with an invalid qubit list changed the source")
    merges = len(want) < len(refp)
    identity_order = qs == sorted(qs)
    cl = ["form:" + d["form"]]
    if merges:
        cl.append("merging")
    if not identity_order:
        cl.append("permuted_qubits")
    if any(v >= 10 for k in d["keys"] for v in k):
        cl.append("multi_digit_outcome")
    if not spec["normalize"]:
        cl.append("normalize_off")
    if any(sorted(q2) == sorted(qs) and q2 != qs for q2 in spec.get("more", [])):
        cl.append("same_qubits_other_order")
    return {"classes": cl, "nontrivial": merges and not identity_order}


@st.composite
def invalid_cases(draw, tier):
    return {"kind": draw(st.sampled_from(["empty", "negative", "negative", "negative_total_one", "unequal", "unequal_total_one", "all_zero", "bad_key_type", "negative_int_key"])),
            "d": draw(dist_spec(max_keys=5)), "neg": draw(st.sampled_from([-0.25, -1e-3, -1.0, -0.5, -3.0])),
            "pos": draw(st.integers(0, 4))}


def o_invalid(spec):
    from orquestra.quantum.distributions import MeasurementOutcomeDistribution

    d = {tuple(k): w for k, w in zip(spec["d"]["keys"], spec["d"]["w"])}
    k = spec["kind"]
    if k == "empty":
        bad = {}
    elif k == "negative":
        bad = dict(d)
        bad[list(bad)[spec.get("pos", 0) % len(bad)]] = spec.get("neg", -0.25)
    elif k == "negative_total_one":
        # values that already sum to 1 although one of them is negative (e.g. {a: 1.5, b: -0.5})
        keys = list(d)
        if len(keys) < 2:
            keys = [tuple([0] * spec["d"]["n"]), tuple([1] * spec["d"]["n"])]
        neg = spec.get("neg", -0.25)
        bad = {key: 0.0 for key in keys}
        bad[keys[spec.get("pos", 0) % len(keys)]] = neg
        share = (1.0 - neg) / (len(keys) - 1)
        for key in keys:
            if bad[key] == 0.0:
                bad[key] = share
        if not abs(sum(bad.values()) - 1.0) < 1e-12 or min(bad.values()) >= 0:
            return {"inconclusive": "construction"}
    elif k == "unequal_total_one":
        tot = sum(d.values())
        bad = {key: v / tot / 2 for key, v in d.items()}
        bad[tuple([0] * (spec["d"]["n"] + 1))] = 0.5
    elif k == "unequal":
        bad = dict(d)
        bad[tuple([0] * (spec["d"]["n"] + 1))] = 0.5
    elif k == "all_zero":
        bad = {key: 0.0 for key in d}
    elif k == "bad_key_type":
        bad = {3: 1.0}
    else:
        bad = {tuple([-1] * spec["d"]["n"]): 1.0}
    # only "normalisation on" (the default) is in the statement's scope
    must_raise(Exception, lambda: MeasurementOutcomeDistribution(bad), f"constructor with {k} input {bad}")
    return {"classes": ["kind:" + k], "nontrivial": k in ("negative", "negative_total_one", "unequal", "unequal_total_one", "all_zero")}


@st.composite
def dist_pairs(draw, tier):
    n = draw(st.one_of(st.integers(1, 4), st.integers(1, 4), st.sampled_from([8, 9, 10, 12, 16, 17])))
    shared_tail = n >= 9 and draw(st.booleans())
    base = draw(st.tuples(*[st.integers(0, 1)] * n)) if shared_tail else None
    def one():
        if shared_tail:
            # wide registers: outcomes that agree on the last eight bits and differ in the leading ones (labels 256 k apart)
            keys = [base]
            for _ in range(draw(st.integers(1, 5))):
                v = list(base)
                for pos in draw(st.lists(st.integers(0, n - 9), min_size=1, max_size=2)):
                    v[pos] ^= 1
                if draw(st.integers(0, 3)) == 0:
                    v[n - 1] ^= 1
                if tuple(v) not in keys:
                    keys.append(tuple(v))
        else:
            keys = _keys(draw, n, 8, [0, 1])
        ws = [draw(st.one_of(st.floats(0.01, 1, allow_nan=False), st.sampled_from([0.0, 1.0, 1e-12]))) for _ in keys]
        if sum(ws) <= 0:
            ws[0] = 1.0
        return {"n": n, "keys": [list(k) for k in keys], "w": ws, "form": "tuple"}
    sig = draw(st.one_of(st.floats(0.1, 10, allow_nan=False), st.lists(st.floats(0.1, 10, allow_nan=False), min_size=1, max_size=3)))
    return {"p": one(), "q": one(), "sigma": sig, "eps": draw(st.sampled_from([1e-9, 1e-6, 1e-3, 0.05]))}


def o_dist(spec):
    from orquestra.quantum.distributions import (MeasurementOutcomeDistribution, compute_clipped_negative_log_likelihood,
                                                 compute_jensen_shannon_divergence, compute_mmd,
                                                 evaluate_distribution_distance)

    p = MeasurementOutcomeDistribution(_input(spec["p"]))
    q = MeasurementOutcomeDistribution(_input(spec["q"]))
    sp, sq = copy.deepcopy(p.distribution_dict), copy.deepcopy(q.distribution_dict)
    par = {"sigma": spec["sigma"]}
    a = must(lambda: compute_mmd(p, q, dict(par)), "compute_mmd(p, q)")
    b = must(lambda: compute_mmd(q, p, dict(par)), "compute_mmd(q, p)")
    z = must(lambda: compute_mmd(p, p, dict(par)), "compute_mmd(p, p)")
    require(abs(a - b) <= 1e-12, lambda: f"MMD not symmetric: {a} vs {b}")
    require(a >= -1e-12, lambda: f"squared MMD negative: {a}")
    require(abs(z) <= 1e-12, lambda: f"MMD(p, p) = {z}")
    # independent value of the squared MMD
    keys = sorted(set(sp) | set(sq))
    x = np.array([int("".join(map(str, k)), 2) for k in keys], dtype=float)
    sig = spec["sigma"] if isinstance(spec["sigma"], list) else [spec["sigma"]]
    K = sum(np.exp(-((x[:, None] - x[None, :]) ** 2) / (2 * s)) for s in sig) / len(sig)
    dv = np.array([sp.get(k, 0) - sq.get(k, 0) for k in keys])
    want = float(dv @ K @ dv)
    require(abs(a - want) <= 1e-10, lambda: f"MMD {a} != kernel quadratic form {want}")
    e = must(lambda: evaluate_distribution_distance(p, q, compute_mmd, distance_measure_parameters=dict(par)), "evaluate_distribution_distance")
    require(abs(e - a) <= 1e-12, "evaluate_distribution_distance differs from the distance function")
    eps = spec["eps"]
    c = must(lambda: compute_clipped_negative_log_likelihood(p, q, {"epsilon": eps}), "CNLL(p, q)")
    H = -sum(v * math.log(v) for v in sp.values() if v > 0)
    Kn = len(set(sp) | set(sq))
    require(c >= H - Kn * eps - 1e-9, lambda: f"CNLL(p, q) = {c} below the entropy H(p) = {H} (eps = {eps})")
    wantc = -sum(v * math.log(max(eps, sq.get(k, 0))) for k, v in sp.items())
    require(abs(c - wantc) <= 1e-9 * max(1, abs(wantc)), lambda: f"CNLL {c} != -sum p log max(eps, q) = {wantc}")
    j1 = must(lambda: compute_jensen_shannon_divergence(p, q, {"epsilon": eps}), "JSD(p, q)")
    j2 = must(lambda: compute_jensen_shannon_divergence(q, p, {"epsilon": eps}), "JSD(q, p)")
    require(abs(j1 - j2) <= 1e-12 * max(1, abs(j1)), lambda: f"symmetrised divergence not symmetric: {j1} vs {j2}")
    require(p.distribution_dict == sp and q.distribution_dict == sq, "a distance function modified its arguments")
    diff = set(k for k, v in sp.items() if v > 0) != set(k for k, v in sq.items() if v > 0)
    wide = spec["p"]["n"] >= 9
    return {"classes": (["different_supports"] if diff else []) + (["multi_kernel"] if isinstance(spec["sigma"], list) else ["single_kernel"]) + (["width>=9"] if wide else []), "nontrivial": diff}


@st.composite
def io_cases(draw, tier):
    return {"d": draw(dist_spec()), "more": draw(st.lists(dist_spec(max_keys=4), max_size=3)), "via": draw(st.sampled_from(["path", "file"]))}


def o_io(spec):
    from orquestra.quantum.distributions import (MeasurementOutcomeDistribution, load_measurement_outcome_distribution,
                                                 load_measurement_outcome_distributions,
                                                 save_measurement_outcome_distribution,
                                                 save_measurement_outcome_distributions)

    dist = MeasurementOutcomeDistribution(_input(spec["d"]))
    src = copy.deepcopy(dist.distribution_dict)
    with tempfile.TemporaryDirectory() as tmp:
        path = os.path.join(tmp, "d.json")
        must(lambda: save_measurement_outcome_distribution(dist, path), "save")
        if spec["via"] == "path":
            back = must(lambda: load_measurement_outcome_distribution(path), "load(path)")
        else:
            with open(path) as f:
                back = must(lambda: load_measurement_outcome_distribution(f), "load(file)")
        require(set(back.distribution_dict) == set(src), lambda: f"keys {sorted(src)} reloaded as {sorted(back.distribution_dict)}")
        for k, v in src.items():
            require(abs(back.distribution_dict[k] - v) <= 1e-12, lambda: f"P{k} = {v} reloaded as {back.distribution_dict[k]}")
        require(dist.distribution_dict == src, "save modified the distribution")
        lst = [dist] + [MeasurementOutcomeDistribution(_input(m)) for m in spec["more"]]
        p2 = os.path.join(tmp, "l.json")
        must(lambda: save_measurement_outcome_distributions(lst, p2), "save list")
        back2 = must(lambda: load_measurement_outcome_distributions(p2), "load list")
        require(len(back2) == len(lst), "list length changed")
        for a, b in zip(lst, back2):
            require(set(a.distribution_dict) == set(b.distribution_dict) and all(abs(a.distribution_dict[k] - b.distribution_dict[k]) <= 1e-12 for k in a.distribution_dict), "a distribution in the list changed after reload")
    keys = spec["d"]["keys"]
    single_multi = spec["d"]["n"] == 1 and any(k[0] >= 10 for k in keys)
    cl = []
    if single_multi:
        cl.append("single_subsystem_multi_digit")
    if any(v >= 10 for k in keys for v in k):
        cl.append("multi_digit_outcome")
    return {"classes": cl, "nontrivial": len(keys) >= 2}


SUBCHECKS = [
    SubCheck("normalise_marginal", o_marginal, strategy=marg_cases, examples=(800, 4000), shards=(4, 12),
             rule="constructor normalisation, proportions, marginal on ordered qubit subsets, source intact"),
    SubCheck("invalid_input", o_invalid, strategy=invalid_cases, examples=(200, 800), shards=(1, 4),
             rule="empty / negative / unequal-length / all-zero inputs are refused"),
    SubCheck("distances", o_dist, strategy=dist_pairs, examples=(500, 2500), shards=(4, 12),
             rule="MMD symmetric, >= 0, zero on (p,p), equals the kernel quadratic form; CNLL >= entropy - K eps; JSD symmetric"),
    SubCheck("save_load", o_io, strategy=io_cases, examples=(300, 1500), shards=(2, 8),
             rule="save then load returns the same keys and probabilities (single distributions and lists)"),
]
SUBCHECKS[0].expected_classes = ["same_qubits_other_order", "merging", "permuted_qubits", "multi_digit_outcome", "normalize_off", "form:tuple", "form:str", "form:comma"]
SUBCHECKS[3].expected_classes = ["single_subsystem_multi_digit", "multi_digit_outcome"]
SUBCHECKS[2].expected_classes = ["different_supports", "multi_kernel", "single_kernel", "width>=9"]


def _campaigns(tier):
    import os

    seed = int(os.environ.get("VERIF_SEED_EFFECTIVE", "1"))
    for corpus in ("empty", "seeded"):
        yield {"target": "marginal", "runs": 150000, "corpus": corpus, "seed": seed, "max_len": 192}


def o_fuzz(spec):
    from vlib.fuzz import run_campaign

    return run_campaign(spec)


SUBCHECKS.append(SubCheck("atheris_marginal", o_fuzz, enumerate=_campaigns, shards=(1, 2), tiers=("thorough",), timeout=(600, 3000),
                          rule="coverage-guided (Atheris/libFuzzer) campaigns, empty and seeded corpus: bytes -> (weights dictionary, qubit lists) -> normalisation and marginal oracle"))
