"""C20 - value-returning operations never modify their arguments."""
import copy
import io
import json
import operator
import os
import shutil
import tempfile
import warnings

import numpy as np
import sympy
from hypothesis import strategies as st
from hypothesis.stateful import initialize, rule

from props.C05 import fingerprint
from vlib import cgen, pgen
from vlib.harness import SubCheck, make_trace_machine, must, require

PROPERTY_ID = "C20"
TECHNIQUE = 'stateful property-based testing (Hypothesis RuleBasedStateMachine): pool of shared objects, deep observable fingerprints after every call, repeated-call agreement'
RULE = (
    "Stateful: a pool of shared objects (numeric and symbolic circuits, Pauli terms and sums, a "
    "measurement set, outcome distributions, a wavefunction, plain containers passed as arguments) "
    "with observable fingerprints taken at creation; each step draws one of ~70 value-returning "
    "operations (compose, bind, invert, control, serialise, evaluate, decompose, simulate circuits; add, "
    "subtract, multiply, power, simplify, conjugate, serialise, convert operators; counts, "
    "distributions, expectation values, parities of measurements; marginalise, compare, save "
    "distributions; probabilities / sampling of a wavefunction) with receiver and arguments drawn from "
    "the pool (the same object may play both roles), runs it twice and requires observably equal "
    "results; after every step every pooled object's fingerprint must be unchanged. Results may join "
    "the pool. Non-trivial history: one object used by >= 3 different operations."
)
ASSUMPTIONS = [
    "fingerprints cover observable state (operation lists, coefficient dictionaries, bitstring lists, probability dictionaries, amplitude arrays), not private caches",
    "'equal results' means observable equality (canonical Pauli form, circuit structure and parameters, dict / array contents), never object identity",
    "operations that raise for a drawn argument combination (e.g. width mismatch) are skipped after checking that the arguments are still unchanged",
]


# ---------------------------------------------------------------- observation


def obs(x):
    """Observable, comparable representation of a value."""
    from orquestra.quantum.circuits import Circuit, GateOperation
    from orquestra.quantum.distributions import MeasurementOutcomeDistribution
    from orquestra.quantum.measurements import ExpectationValues, Measurements, Parities
    from orquestra.quantum.operators import PauliSum, PauliTerm
    from orquestra.quantum.wavefunction import Wavefunction

    if isinstance(x, Circuit):
        return ("circuit", x.n_qubits, [obs(op) for op in x.operations])
    if isinstance(x, GateOperation):
        base = x.gate
        while hasattr(base, "wrapped_gate"):
            base = base.wrapped_gate
        definition = getattr(getattr(base, "matrix_factory", None), "gate_definition", None)
        custom = None
        if definition is not None:  # the defining matrix and parameter order of a custom gate are public attributes
            custom = (definition.gate_name, [sympy.srepr(e) for e in definition.matrix], [str(p) for p in definition.params_ordering])
        return ("op", repr(fingerprint(x.gate)), [str(p) for p in x.gate.params], tuple(x.qubit_indices), custom)
    if isinstance(x, PauliTerm):
        return ("term", tuple(sorted(x.operations)), complex(x.coefficient), type(x.coefficient).__name__)
    if isinstance(x, PauliSum):
        return ("sum", [obs(t) for t in x.terms])
    if isinstance(x, Measurements):
        return ("meas", [tuple(b) for b in x.bitstrings])
    if isinstance(x, MeasurementOutcomeDistribution):
        return ("dist", list(x.distribution_dict.items()))
    if isinstance(x, Wavefunction):
        amps = x.amplitudes
        if getattr(x, "free_symbols", None):
            return ("wf", tuple(np.shape(amps)), [str(a) for a in np.ravel(np.asarray(amps, dtype=object))])
        return ("wf", tuple(np.shape(amps)), [complex(a) for a in np.ravel(np.asarray(amps, dtype=complex))])
    if isinstance(x, ExpectationValues):
        return ("ev", obs(x.values), obs(x.correlations), obs(x.estimator_covariances))
    if isinstance(x, Parities):
        return ("par", obs(x.values), obs(x.correlations))
    if isinstance(x, np.ndarray):
        if x.dtype == object:  # arrays of sympy expressions (probabilities of a symbolic wavefunction)
            return ("arr", x.shape, [str(v) for v in np.ravel(x)])
        return ("arr", x.shape, [complex(v) if np.iscomplexobj(x) else float(v) for v in np.ravel(x)])
    if isinstance(x, sympy.MatrixBase):
        return ("mat", x.shape, [str(v) for v in x])
    if hasattr(x, "toarray"):
        return obs(np.asarray(x.toarray()))
    if isinstance(x, dict):
        return ("dict", [(repr(k), obs(v)) for k, v in x.items()])
    if isinstance(x, (list, tuple)):
        return ("seq", type(x).__name__, [obs(v) for v in x])
    if isinstance(x, (set, frozenset)):
        return ("set", sorted(repr(v) for v in x))
    if isinstance(x, sympy.Basic):
        return ("sym", str(x))
    if isinstance(x, (int, float, complex, str, bool)) or x is None:
        return x
    if isinstance(x, np.generic):
        return x.item()
    return ("repr", repr(x))


def same(a, b):
    """obs-level equality with nan == nan."""
    if isinstance(a, float) and isinstance(b, float):
        return a == b or (a != a and b != b)
    if isinstance(a, complex) and isinstance(b, complex):
        return same(a.real, b.real) and same(a.imag, b.imag)
    if isinstance(a, (list, tuple)) and isinstance(b, (list, tuple)):
        return len(a) == len(b) and all(same(x, y) for x, y in zip(a, b))
    return a == b


# ---------------------------------------------------------------- the operation menu
# each entry: name -> (kinds of the pooled arguments, function(args..., k, x, tmp) -> result)


def _menu():
    from orquestra.quantum.circuits import (RX, Circuit, X, add_ancilla_register, apply_gate_to_qubits,
                                            circuit_from_dict, save_circuit, to_dict)
    from orquestra.quantum.decompositions import U3GateToRotation, decompose_orquestra_circuit
    from orquestra.quantum.distributions import (compute_clipped_negative_log_likelihood,
                                                 compute_jensen_shannon_divergence, compute_mmd,
                                                 evaluate_distribution_distance,
                                                 save_measurement_outcome_distribution)
    from orquestra.quantum.measurements import Measurements, get_parities_from_measurements
    from orquestra.quantum.operators import (convert_op_to_dict, get_expectation_value, get_pauli_strings,
                                             get_sparse_operator, hermitian_conjugated, is_hermitian,
                                             reverse_qubit_order, save_operator)
    from orquestra.quantum.runners import SymbolicSimulator
    from orquestra.quantum.wavefunction import (flip_wavefunction, sample_from_wavefunction, save_wavefunction)

    A, B = sympy.Symbol("a"), sympy.Symbol("b")

    def save_then_read(fn):
        def go(obj, k, x, tmp):
            p = os.path.join(tmp, "f.json")
            fn(obj, p)
            return open(p).read()
        return go

    def ising(op):
        return op.is_ising

    M = {
        # circuits
        "c_add": (("circ", "circ"), lambda c, d, k, x, t: c + d),
        "c_add_self": (("circ",), lambda c, k, x, t: c + c),
        "c_add_op": (("circ", "circ"), lambda c, d, k, x, t: c + d.operations[k % len(d.operations)] if d.operations else None),
        "c_bind": (("circ",), lambda c, k, x, t: c.bind({A: x, B: -x} if k % 2 else {A: x})),
        "c_bind_symbolic": (("circ",), lambda c, k, x, t: c.bind({A: B * x})),
        "c_inverse": (("circ",), lambda c, k, x, t: c.inverse()),
        "c_controlled": (("circ",), lambda c, k, x, t: c.controlled(k % (c.n_qubits + 1))),
        "c_to_dict": (("circ",), lambda c, k, x, t: to_dict(c)),
        "c_roundtrip": (("circ",), lambda c, k, x, t: circuit_from_dict(json.loads(json.dumps(to_dict(c))))),
        "c_save": (("circ",), save_then_read(save_circuit)),
        "c_to_unitary": (("circ",), lambda c, k, x, t: c.to_unitary() if c.operations else None),
        "c_free_symbols": (("circ",), lambda c, k, x, t: c.free_symbols),
        "c_eq": (("circ", "circ"), lambda c, d, k, x, t: c == d),
        "c_repr": (("circ",), lambda c, k, x, t: repr(c)),
        "c_custom_defs": (("circ",), lambda c, k, x, t: [d.gate_name for d in c.collect_custom_gate_definitions()]),
        "c_apply_gate": (("circ",), lambda c, k, x, t: apply_gate_to_qubits(c, [0, k % 3, 0] if k % 2 else [k % 3], RX, [[x]] * len({0, k % 3} if k % 2 else {k % 3}))),
        "c_ancilla": (("circ",), lambda c, k, x, t: add_ancilla_register(c, k % 3)),
        "c_decompose": (("circ",), lambda c, k, x, t: decompose_orquestra_circuit(c, [U3GateToRotation()] if k % 2 else [])),
        "c_wavefunction": (("circ",), lambda c, k, x, t: SymbolicSimulator(seed=k).get_wavefunction(c) if not c.free_symbols else None),
        "c_wavefunction_init": (("circ", "vec"), lambda c, v, k, x, t: SymbolicSimulator(seed=k).get_wavefunction(c, v) if (not c.free_symbols and len(v) == 2 ** c.n_qubits) else None),
        "c_sample": (("circ",), lambda c, k, x, t: SymbolicSimulator(seed=k).run_and_measure(c, 1 + k % 7) if not c.free_symbols else None),
        "c_batch": (("circ", "circ"), lambda c, d, k, x, t: SymbolicSimulator(seed=k).run_batch_and_measure([c, d, c], [2, 3, 1 + k % 4]) if not (c.free_symbols or d.free_symbols) else None),
        "c_exact_dist": (("circ",), lambda c, k, x, t: SymbolicSimulator(seed=k).get_measurement_outcome_distribution(c, None) if not c.free_symbols else None),
        "c_exact_expectation": (("circ", "pauli"), lambda c, o, k, x, t: SymbolicSimulator().get_exact_expectation_values(c, o) if (not c.free_symbols and o.n_qubits <= c.n_qubits) else None),
        "op_bind": (("circ",), lambda c, k, x, t: c.operations[k % len(c.operations)].bind({A: x}) if c.operations else None),
        "op_lifted": (("circ",), lambda c, k, x, t: c.operations[k % len(c.operations)].lifted_matrix(c.n_qubits) if c.operations else None),
        "gate_dagger": (("circ",), lambda c, k, x, t: c.operations[k % len(c.operations)].gate.dagger(*c.operations[k % len(c.operations)].qubit_indices) if c.operations else None),
        "gate_controlled": (("circ",), lambda c, k, x, t: c.operations[k % len(c.operations)].gate.controlled(1 + k % 2).num_qubits if c.operations else None),
        "gate_matrix": (("circ",), lambda c, k, x, t: c.operations[k % len(c.operations)].gate.matrix if c.operations else None),
        "op_apply": (("circ", "vec"), lambda c, v, k, x, t: c.operations[k % len(c.operations)].apply(v) if (c.operations and not c.free_symbols and len(v) == 2 ** c.n_qubits) else None),
        "c_apply_all": (("circ", "vec"), lambda c, v, k, x, t: __import__("functools").reduce(lambda st_, op: op.apply(st_), c.operations, v) if (c.operations and not c.free_symbols and len(v) == 2 ** c.n_qubits) else None),
        "c_iadd": (("circ", "circ"), lambda c, d, k, x, t: operator.iadd(c, d)),
        "c_iadd_op": (("circ", "circ"), lambda c, d, k, x, t: operator.iadd(c, d.operations[k % len(d.operations)]) if d.operations else None),
        "gate_replace_params": (("circ",), lambda c, k, x, t: (lambda op: op.replace_params(tuple(x for _ in op.params)))(c.operations[k % len(c.operations)]) if c.operations else None),
        # operators
        "p_add": (("pauli", "pauli"), lambda a, b, k, x, t: a + b),
        "p_add_self": (("pauli",), lambda a, k, x, t: a + a),
        "p_sub": (("pauli", "pauli"), lambda a, b, k, x, t: a - b),
        "p_mul": (("pauli", "pauli"), lambda a, b, k, x, t: a * b),
        "p_mul_self": (("pauli",), lambda a, k, x, t: a * a),
        "p_scalar_right": (("pauli",), lambda a, k, x, t: a * (x + 1j * (k % 2))),
        "p_scalar_left": (("pauli",), lambda a, k, x, t: x * a),
        "p_number_add": (("pauli",), lambda a, k, x, t: a + x),
        "p_number_radd": (("pauli",), lambda a, k, x, t: x + a),
        "p_rsub": (("pauli",), lambda a, k, x, t: x - a),
        "p_div": (("pauli",), lambda a, k, x, t: a / (x if x else 1.5)),
        "p_pow": (("pauli",), lambda a, k, x, t: a ** (k % 4)),
        "p_iadd": (("pauli", "pauli"), lambda a, b, k, x, t: operator.iadd(a, b)),
        "p_iadd_number": (("pauli",), lambda a, k, x, t: operator.iadd(a, x)),
        "p_isub": (("pauli", "pauli"), lambda a, b, k, x, t: operator.isub(a, b)),
        "p_imul": (("pauli", "pauli"), lambda a, b, k, x, t: operator.imul(a, b)),
        "p_imul_number": (("pauli",), lambda a, k, x, t: operator.imul(a, x + 1j * (k % 2))),
        "p_idiv": (("pauli",), lambda a, k, x, t: operator.itruediv(a, x if x else 1.5)),
        "p_ipow": (("pauli",), lambda a, k, x, t: operator.ipow(a, k % 4)),
        "p_neg_like": (("pauli",), lambda a, k, x, t: -1 * a),
        "p_simplify": (("sum",), lambda a, k, x, t: a.simplify()),
        "p_conj": (("pauli",), lambda a, k, x, t: hermitian_conjugated(a)),
        "p_is_hermitian": (("pauli",), lambda a, k, x, t: is_hermitian(a)),
        "p_to_dict": (("pauli",), lambda a, k, x, t: convert_op_to_dict(a)),
        "p_save": (("pauli",), save_then_read(save_operator)),
        "p_sparse": (("pauli",), lambda a, k, x, t: get_sparse_operator(a, n_qubits=a.n_qubits + k % 2)),
        "p_reverse": (("pauli",), lambda a, k, x, t: reverse_qubit_order(a, a.n_qubits + k % 2)),
        "p_str": (("pauli",), lambda a, k, x, t: str(a)),
        "p_eq": (("pauli", "pauli"), lambda a, b, k, x, t: a == b),
        "p_hash": (("pauli",), lambda a, k, x, t: hash(a)),
        "p_strings": (("pauli",), lambda a, k, x, t: get_pauli_strings(a)),
        "p_props": (("pauli",), lambda a, k, x, t: (a.n_qubits, sorted(a.qubits), a.is_ising, a.is_constant)),
        "p_circuit": (("term",), lambda a, k, x, t: a.circuit),
        "p_copy": (("term",), lambda a, k, x, t: a.copy(x if k % 2 else None)),
        "p_circuits": (("sum",), lambda a, k, x, t: a.circuits),
        "p_expectation": (("pauli", "wf"), lambda a, w, k, x, t: get_expectation_value(a, w) if a.n_qubits <= w.n_qubits else None),
        # measurements
        "m_counts": (("meas",), lambda m, k, x, t: m.get_counts()),
        "m_distribution": (("meas",), lambda m, k, x, t: m.get_distribution()),
        "m_expectation": (("meas", "pauli"), lambda m, o, k, x, t: m.get_expectation_values(o, bool(k % 2)) if (ising(o) and o.terms and o.n_qubits <= len(m.bitstrings[0])) else None),
        "m_parities": (("bits", "pauli"), lambda b, o, k, x, t: get_parities_from_measurements(b, o) if (ising(o) and o.terms and o.n_qubits <= len(b[0])) else None),
        "m_save": (("meas",), save_then_read(lambda m, p: m.save(p))),
        "m_from_counts": (("meas",), lambda m, k, x, t: Measurements.from_counts(m.get_counts())),
        "m_representing": (("dist",), lambda d, k, x, t: (np.random.seed(k), Measurements.get_measurements_representing_distribution(d, 1 + k % 9))[1]),
        # distributions
        "d_sub": (("dist", "qlist"), lambda d, q, k, x, t: d.subdistribution(q) if max(q) < d.get_number_of_subsystems() else None),
        "d_mmd": (("dist", "dist"), lambda d, e, k, x, t: compute_mmd(d, e, {"sigma": 1.0 + k % 3}) if d.get_number_of_subsystems() == e.get_number_of_subsystems() else None),
        "d_cnll": (("dist", "dist"), lambda d, e, k, x, t: compute_clipped_negative_log_likelihood(d, e, {"epsilon": 1e-6})),
        "d_jsd": (("dist", "dist"), lambda d, e, k, x, t: compute_jensen_shannon_divergence(d, e, {"epsilon": 1e-6})),
        "d_distance": (("dist", "dist"), lambda d, e, k, x, t: evaluate_distribution_distance(d, e, compute_mmd, distance_measure_parameters={"sigma": 2.0}) if d.get_number_of_subsystems() == e.get_number_of_subsystems() else None),
        # the parameter dictionary (and the containers inside it) handed to a distance function is an argument like any other
        "d_mmd_params": (("dist", "dist", "params"), lambda d, e, p, k, x, t: compute_mmd(d, e, p) if (d.get_number_of_subsystems() == e.get_number_of_subsystems() and "sigma" in p) else None),
        "d_cnll_params": (("dist", "dist", "params"), lambda d, e, p, k, x, t: compute_clipped_negative_log_likelihood(d, e, p) if "epsilon" in p else None),
        "d_jsd_params": (("dist", "dist", "params"), lambda d, e, p, k, x, t: compute_jensen_shannon_divergence(d, e, p) if "epsilon" in p else None),
        "d_distance_params": (("dist", "dist", "params"), lambda d, e, p, k, x, t: evaluate_distribution_distance(d, e, compute_mmd if "sigma" in p else compute_clipped_negative_log_likelihood, distance_measure_parameters=p) if d.get_number_of_subsystems() == e.get_number_of_subsystems() else None),
        "d_save": (("dist",), save_then_read(save_measurement_outcome_distribution)),
        "d_new": (("ddict",), lambda dd, k, x, t: __import__("orquestra.quantum.distributions", fromlist=["x"]).MeasurementOutcomeDistribution(dd, bool(k % 2))),
        "d_repr": (("dist",), lambda d, k, x, t: repr(d)),
        # wavefunction
        "w_probs": (("wf",), lambda w, k, x, t: w.get_probabilities()),
        "w_outcome_probs": (("wf",), lambda w, k, x, t: w.get_outcome_probs()),
        "w_flip": (("wf",), lambda w, k, x, t: flip_wavefunction(w)),
        "w_save": (("wf",), save_then_read(save_wavefunction)),
        "w_sample": (("wf",), lambda w, k, x, t: sample_from_wavefunction(w, 1 + k % 20, seed=k)),
        "w_bind": (("wf",), lambda w, k, x, t: w.bind({A: x})),
        "w_eq": (("wf", "wf"), lambda w, v, k, x, t: w == v),
    }
    return M


KIND_MEMBERS = {"pauli": ("term", "sum"), "circ": ("circ",), "term": ("term",), "sum": ("sum",), "meas": ("meas",),
                "dist": ("dist",), "wf": ("wf",), "vec": ("vec",), "bits": ("bits",), "qlist": ("qlist",), "ddict": ("ddict",), "params": ("params",)}
OP_NAMES = None


def machine(on_end, expired):
    from orquestra.quantum.circuits import RX, U3, Circuit, CustomGateDefinition, MultiPhaseOperation
    from orquestra.quantum.distributions import MeasurementOutcomeDistribution
    from orquestra.quantum.measurements import Measurements
    from orquestra.quantum.wavefunction import Wavefunction

    Base = make_trace_machine(on_end, expired)
    MENU = _menu()

    class ValueMachine(Base):
        def __init__(self):
            super().__init__()
            self.pool = []      # (kind, object)
            self.prints = []    # fingerprints at creation
            self.uses = []      # set of operation names per object
            self.tmp = tempfile.mkdtemp(prefix="c20-")

        def _add(self, kind, obj):
            if len(self.pool) >= 40:
                return
            self.pool.append((kind, obj))
            self.prints.append(copy.deepcopy(obs(obj)))
            self.uses.append(set())

        def _pick(self, kind, idx):
            cands = [i for i, (k, _) in enumerate(self.pool) if k in KIND_MEMBERS[kind]]
            return cands[idx % len(cands)] if cands else None

        def inv(self):
            for i, ((kind, obj), fp) in enumerate(zip(self.pool, self.prints)):
                now = obs(obj)
                require(same(now, fp), lambda: f"pooled {kind} #{i} changed: {str(fp)[:300]} -> {str(now)[:300]}")

        @initialize(circs=st.lists(cgen.circuit_specs(max_n=3, max_ops=3, min_ops=1, max_mods=1), min_size=2, max_size=3),
                    terms=st.lists(pgen.terms(max_q=3), min_size=2, max_size=3), sums=st.lists(pgen.sums(max_q=3, max_terms=3), min_size=2, max_size=3),
                    zterms=st.lists(pgen.terms(max_q=3, letters="Z", kinds=("int", "float"), zero=False), min_size=1, max_size=3),
                    bits=st.lists(st.lists(st.integers(0, 1), min_size=3, max_size=3), min_size=1, max_size=6),
                    dists=st.lists(st.lists(st.floats(0.01, 1, allow_nan=False), min_size=8, max_size=8), min_size=2, max_size=2),
                    seed=st.integers(0, 10 ** 6))
        def init(self, circs, terms, sums, zterms, bits, dists, seed):
            def go():
                for c in circs:
                    self._add("circ", cgen.build_circuit(c))
                a = sympy.Symbol("a")
                self._add("circ", Circuit([RX(a)(0), U3(0.3, a * 2, 0.1)(1), RX(0.5)(2)]))
                self._add("circ", Circuit([U3(0.3, 0.2, 0.1).controlled(1)(2, 0)], 3))
                # a custom gate whose defining matrix is not in any canonical / simplified form
                ca, cb = sympy.Symbol("ca"), sympy.Symbol("cb")
                unsimplified = CustomGateDefinition("unsimp", sympy.Matrix([
                    [sympy.cos(ca) ** 2 - sympy.sin(ca) ** 2, -2 * sympy.sin(ca) * sympy.cos(ca) * (sympy.sin(cb) ** 2 + sympy.cos(cb) ** 2)],
                    [sympy.sin(2 * ca) + 0 * cb, (sympy.cos(ca) - sympy.sin(ca)) * (sympy.cos(ca) + sympy.sin(ca))]]), (ca, cb))
                self._add("circ", Circuit([unsimplified(0.4, 0.3)(1), RX(0.5)(0)]))
                self._add("circ", Circuit([unsimplified(a, 0.25).controlled(1)(0, 2)]))
                ph = [0.1 * (1 + (seed + 3 * i) % 17) for i in range(8)]
                self._add("circ", Circuit([MultiPhaseOperation(tuple(ph)), RX(0.5)(1)], 3))
                self._add("circ", Circuit([MultiPhaseOperation(tuple(ph[::-1]))], 3))
                self._add("circ", Circuit([RX(0.25)(2), MultiPhaseOperation(tuple(ph)), MultiPhaseOperation(tuple(ph[::-1]))], 3))
                for t in terms:
                    self._add("term", pgen.build_term(t))
                for s in sums:
                    self._add("sum", pgen.build_sum(s))
                self._add("sum", pgen.build_sum({"terms": zterms}))
                self._add("term", pgen.build_term(zterms[0]))
                shots = [tuple(b) for b in bits]
                self._add("meas", Measurements(list(shots)))
                self._add("bits", list(shots))
                keys3 = [(i >> 2 & 1, i >> 1 & 1, i & 1) for i in range(8)]
                for w in dists:
                    dd = dict(zip(keys3, w))
                    self._add("ddict", dd)
                    self._add("dist", MeasurementOutcomeDistribution(dict(dd)))
                self._add("dist", MeasurementOutcomeDistribution({"00": 0.5, "11": 0.25, "01": 0.25}))
                rs = np.random.RandomState(seed)
                v = rs.normal(size=8) + 1j * rs.normal(size=8)
                v = v / np.linalg.norm(v)
                self._add("wf", Wavefunction(v.copy()))
                # wavefunctions that hold a column: built from a sympy matrix, or obtained by binding a symbolic one
                sa = sympy.Symbol("a")
                self._add("wf", Wavefunction(sympy.Matrix([complex(z) for z in v])))
                self._add("wf", Wavefunction([sa, 0.5, 0.5j, 0, 0, 0, 0, 0]).bind({sa: (0.5 ** 0.5)}))
                self._add("wf", Wavefunction([sa, 0.5, 0.5j, 0, 0, 0, 0, 0]))
                col = np.asarray(v[::-1], dtype=complex).reshape(8, 1).copy()
                self._add("vec", col)
                self._add("wf", Wavefunction(col))
                self._add("vec", v.copy())
                r = rs.normal(size=8)
                self._add("vec", r / np.linalg.norm(r))                      # real float64 array
                self._add("vec", [complex(a) for a in v[::-1]])               # plain list of complex numbers
                self._add("vec", np.asarray(v[::-1], dtype=np.complex128).reshape(8).copy(order="F"))
                self._add("qlist", [2, 0])
                self._add("qlist", [1])
                self._add("qlist", [0, -1])  # positions counted from the end are accepted as well (plain Python indexing)
                self._add("params", {"sigma": np.array([1.0, 0.5, 2.0])})
                self._add("params", {"sigma": [0.7, 3.0], "epsilon": 1e-6})
                self._add("params", {"sigma": 1.5, "epsilon": 1e-3})
                self._add("params", {"epsilon": 1e-9, "sigma": np.array([2, 4])})
            self.step("init", {"circs": circs, "terms": terms, "sums": sums, "zterms": zterms, "bits": bits, "dists": dists, "seed": seed}, go)

        @rule(name=st.sampled_from(sorted(MENU)), i=st.integers(0, 50), j=st.integers(0, 50), k=st.integers(0, 20),
              x=st.sampled_from([0.5, -1.25, 2.0, 0.0, 0.3]), keep=st.booleans())
        def op(self, name, i, j, k, x, keep):
            def go():
                kinds, fn = MENU[name]
                idx = [self._pick(kd, n) for kd, n in zip(kinds, (i, j, i + j + k))]
                if any(ix is None for ix in idx):
                    return
                args = [self.pool[ix][1] for ix in idx]
                results, seen = [], []
                for rep in range(2):
                    try:
                        with warnings.catch_warnings():
                            warnings.simplefilter("ignore")
                            results.append(fn(*args, k, x, self.tmp))
                    except (ValueError, TypeError, NotImplementedError, RuntimeError, AssertionError, KeyError, AttributeError, IndexError, ZeroDivisionError):
                        # this argument combination is refused: the arguments must still be intact (checked by inv)
                        self.info["classes"].add("refused")
                        return
                    # observe the result and the pool right after each call: a result that shares parts with an argument
                    # would otherwise be read only after the second call has edited it once more
                    seen.append(copy.deepcopy(obs(results[-1])))
                    self.inv()
                if results[0] is None:
                    return
                o1, o2 = seen
                require(same(o1, o2), lambda: f"{name}: two calls on the same arguments gave different results: {str(o1)[:200]} vs {str(o2)[:200]}")
                for ix in idx:
                    self.uses[ix].add(name)
                    if len(self.uses[ix]) >= 3:
                        self.info["nontrivial"] = True
                if len(set(idx)) < len(idx):
                    self.info["classes"].add("same_object_twice")
                self.info["classes"].add("family:" + name.split("_")[0])
                if keep:
                    from orquestra.quantum.circuits import Circuit as _C
                    from orquestra.quantum.distributions import MeasurementOutcomeDistribution as _D
                    from orquestra.quantum.measurements import Measurements as _M
                    from orquestra.quantum.operators import PauliSum as _S, PauliTerm as _T
                    r = results[0]
                    for cls, kd in ((_C, "circ"), (_T, "term"), (_S, "sum"), (_D, "dist"), (_M, "meas"), (Wavefunction, "wf")):
                        if isinstance(r, cls):
                            if kd == "meas" and not r.bitstrings:
                                break
                            if kd == "circ" and (r.n_qubits > 4 or len(r.operations) > 8 or r.n_qubits == 0):
                                break
                            if kd in ("term", "sum") and (r.n_qubits > 4 or len(r.terms) > 8):
                                break
                            self._add(kd, r)
                            self.info["classes"].add("result_pooled")
                            break
            self.step("op", {"name": name, "i": i, "j": j, "k": k, "x": x, "keep": keep}, go)

        def teardown(self):
            shutil.rmtree(self.tmp, ignore_errors=True)
            super().teardown()

    return ValueMachine


SUBCHECKS = [
    SubCheck("value_semantics", None, machine=machine, examples=(100, 800), shards=(12, 16), steps=(25, 50), timeout=(900, 3000),
             rule="pool of shared objects, ~70 operations, fingerprints unchanged after every step, repeated calls agree"),
]
SUBCHECKS[0].expected_classes = ["family:c", "family:p", "family:m", "family:d", "family:w", "family:op", "family:gate", "same_object_twice", "result_pooled"]
