"""C16 - time-evolution circuits implement exp(-i t H) term by term, and its derivative."""
import itertools

import numpy as np
import scipy.linalg as sl
import sympy
from hypothesis import strategies as st

from vlib import pgen, ref
from vlib.harness import SubCheck, must, must_raise, require

PROPERTY_ID = "C16"
TECHNIQUE = 'exhaustive Pauli strings (<=3 qubits) + property-based testing (Hypothesis) against scipy expm and an analytic product-rule derivative'
RULE = (
    "Exhaustive: all 84 Pauli strings on <= 3 qubits x 5 (coefficient, time) pairs. Random: strings on "
    "<= 4 qubits with gaps, real coefficients (ints / floats, complex type with zero imaginary part) and "
    "times incl. negative and 0, numeric and symbolic time; Hamiltonians of 1..4 non-zero terms (+ optional "
    "constant) on <= 3 qubits, 1..4 steps; complex coefficients with imaginary part of either sign; "
    "random observables and initial states. Oracle: scipy expm(-i t c P) (ordered product over steps "
    "and listed terms, constants contribute the identity), analytic product-rule derivative of "
    "<psi|U(t)^dagger O U(t)|psi>. Non-trivial: a string with >= 2 non-identity factors incl. X or Y; "
    "steps >= 2 for the derivative."
)
ASSUMPTIONS = [
    "Hamiltonian coefficients are non-zero (|c| >= 1e-2): the derivative construction divides by the coefficient",
    "the evolution circuit of a constant term is the empty circuit, so constants contribute the identity (no global phase) to the product",
    "dense 2^n reference, n <= 4; registers up to 12 (14) qubits through a state-vector reference",
]

PAIRS = [(1.0, 0.3), (-1.7, 1.1), (0.5, -2.2), (2, 0.0), (-0.31, 3.9)]


def circ_matrix(c, n):
    U = np.eye(2 ** n, dtype=complex)
    for op in c.operations:
        q = tuple(op.qubit_indices)
        require(len(set(q)) == len(q) and len(q) == op.gate.num_qubits and all(0 <= i < n for i in q), lambda: f"operation {op} outside the {n}-qubit support of the Hamiltonian")
        U = ref.embed(ref.npm(op.gate.matrix), q, n) @ U
    return U


def term_matrix(ops, c, n):
    return complex(c) * ref.pauli_string_matrix({q: p for q, p in ops}, n)


def enum_terms(tier):
    for k in range(1, 4):
        for s in itertools.product("IXYZ", repeat=k):
            for c, t in PAIRS:
                yield {"ops": [[i, p] for i, p in enumerate(s) if p != "I"], "c": c, "t": t, "n": k, "symbolic": False}


@st.composite
def term_cases(draw, tier):
    n = draw(st.integers(1, 4))
    qs = draw(st.lists(st.integers(0, n - 1), unique=True, max_size=n))
    ops = [[q, draw(st.sampled_from("XYZ"))] for q in sorted(qs)]
    c = draw(st.one_of(st.floats(-3, 3, allow_nan=False), st.integers(-2, 2), st.floats(-3, 3, allow_nan=False).map(lambda x: ["c", x, 0.0])))
    t = draw(st.one_of(st.floats(-4, 4, allow_nan=False), st.sampled_from([0.0, 1.0, np.pi / 2, -np.pi])))
    return {"ops": ops, "c": c, "t": t, "n": n, "symbolic": draw(st.integers(0, 3)) == 0}


def o_term(spec):
    from orquestra.quantum.evolution import time_evolution_for_term

    term = pgen.build_term(spec)
    n, t = spec["n"], spec["t"]
    c = pgen.coef(spec["c"])
    if spec["symbolic"]:
        ts = sympy.Symbol("t")
        circ = must(lambda: time_evolution_for_term(term, ts), "time_evolution_for_term(symbolic time)")
        circ = must(lambda: circ.bind({ts: t}), "bind(time)")
    else:
        circ = must(lambda: time_evolution_for_term(term, t), "time_evolution_for_term")
    if not spec["ops"]:
        require(len(circ.operations) == 0, lambda: f"constant term gives a non-empty circuit {circ}")
        return {"classes": ["constant"], "nontrivial": False}
    require(circ.n_qubits <= n, lambda: f"circuit width {circ.n_qubits} exceeds the term's width {n}")
    U = circ_matrix(circ, n)
    R = sl.expm(-1j * t * term_matrix(spec["ops"], c, n))
    require(ref.close(U, R, 1e-9), lambda: f"circuit for {term!r}, t={t}: matrix differs from exp(-i t c P), max|d|={ref.maxdiff(U, R):.3g}")
    letters = [p for _, p in spec["ops"]]
    return {"classes": ["weight:%d" % len(letters)] + (["symbolic_time"] if spec["symbolic"] else []),
            "nontrivial": len(letters) >= 2 and bool(set(letters) & {"X", "Y"})}


@st.composite
def imag_cases(draw, tier):
    n = draw(st.integers(1, 3))
    qs = draw(st.lists(st.integers(0, n - 1), unique=True, min_size=1, max_size=n))
    im = draw(st.one_of(st.floats(1e-6, 2, allow_nan=False), st.sampled_from([1e-5, 0.5, 1.0])))
    return {"ops": [[q, draw(st.sampled_from("XYZ"))] for q in sorted(qs)], "re": draw(st.floats(-2, 2, allow_nan=False)),
            "im": im * draw(st.sampled_from([-1, 1])), "t": draw(st.floats(-2, 2, allow_nan=False)), "in_sum": draw(st.booleans())}


def o_imag(spec):
    from orquestra.quantum.evolution import time_evolution, time_evolution_for_term
    from orquestra.quantum.operators import PauliSum, PauliTerm

    term = PauliTerm({q: p for q, p in spec["ops"]}, complex(spec["re"], spec["im"]))
    must_raise(Exception, lambda: time_evolution_for_term(term, spec["t"]), f"evolution of a term with coefficient {term.coefficient}")
    if spec["in_sum"]:
        H = PauliSum([PauliTerm({0: "Z"}, 1.0), term])
        must_raise(Exception, lambda: time_evolution(H, spec["t"]), "evolution of a sum holding a complex coefficient")
    return {"classes": ["negative_imag" if spec["im"] < 0 else "positive_imag"], "nontrivial": spec["im"] < 0}


@st.composite
def ham_cases(draw, tier):
    n = draw(st.integers(1, 3))
    terms = []
    for _ in range(draw(st.integers(1, 4))):
        qs = draw(st.lists(st.integers(0, n - 1), unique=True, min_size=1, max_size=n))
        mag = draw(st.one_of(st.floats(1e-2, 2, allow_nan=False), st.sampled_from([1.0, 0.5, 2.0])))
        terms.append({"ops": [[q, draw(st.sampled_from("XYZ"))] for q in sorted(qs)], "c": mag * draw(st.sampled_from([-1, 1]))})
    if draw(st.integers(0, 4)) == 0:
        terms.insert(draw(st.integers(0, len(terms))), {"ops": [], "c": draw(st.sampled_from([0.7, -1.5]))})
    return {"n": n, "terms": terms, "t": draw(st.one_of(st.floats(-2, 2, allow_nan=False), st.sampled_from([0.0, 1.0]))),
            "steps": draw(st.integers(1, 4)), "seed": draw(st.integers(0, 10 ** 6)), "symbolic": draw(st.integers(0, 4)) == 0,
            "as_term": draw(st.booleans())}


def _factors(spec):
    """Reference factors of the Trotter product, in application order, with their generators."""
    n, t, ns = spec["n"], spec["t"], spec["steps"]
    mats, gens = [], []
    for _ in range(ns):
        for tm in spec["terms"]:
            if not tm["ops"]:
                continue
            A = term_matrix(tm["ops"], tm["c"], n)
            mats.append(sl.expm(-1j * (t / ns) * A))
            gens.append(-1j * A / ns)
    return mats, gens


def _ham(spec):
    from orquestra.quantum.operators import PauliSum

    terms = [pgen.build_term(t) for t in spec["terms"]]
    return terms[0] if (len(terms) == 1 and spec["as_term"]) else PauliSum(terms)


def o_sum(spec):
    from orquestra.quantum.evolution import time_evolution

    H = _ham(spec)
    n, t, ns = spec["n"], spec["t"], spec["steps"]
    if spec["symbolic"]:
        ts = sympy.Symbol("t")
        circ = must(lambda: time_evolution(H, ts, n_steps=ns).bind({ts: t}), "time_evolution(symbolic time).bind")
    else:
        circ = must(lambda: time_evolution(H, t, n_steps=ns), "time_evolution")
    U = circ_matrix(circ, n)
    mats, _ = _factors(spec)
    R = np.eye(2 ** n, dtype=complex)
    for M in mats:
        R = M @ R
    require(ref.close(U, R, 1e-9), lambda: f"evolution circuit differs from the ordered product of per-term exponentials ({ns} steps), max|d|={ref.maxdiff(U, R):.3g}")
    must_raise(Exception, lambda: time_evolution(H, t, method="exact"), "unsupported method")
    nonconst = [tm for tm in spec["terms"] if tm["ops"]]
    noncommuting = len(nonconst) >= 2
    cl = ["steps:%d" % ns]
    if any(not tm["ops"] for tm in spec["terms"]):
        cl.append("constant_term")
    if spec["symbolic"]:
        cl.append("symbolic_time")
    return {"classes": cl, "nontrivial": noncommuting and ns >= 2}


def o_deriv(spec):
    from orquestra.quantum.evolution import time_evolution_derivatives

    H = _ham(spec)
    n, t, ns = spec["n"], spec["t"], spec["steps"]
    circs, facs = must(lambda: time_evolution_derivatives(H, t, n_steps=ns), "time_evolution_derivatives")
    require(len(circs) == len(facs), "circuits and factors differ in length")
    rs = np.random.RandomState(spec["seed"])
    psi = rs.normal(size=2 ** n) + 1j * rs.normal(size=2 ** n)
    psi = psi / np.linalg.norm(psi)
    O = rs.normal(size=(2 ** n, 2 ** n)) + 1j * rs.normal(size=(2 ** n, 2 ** n))
    O = O + O.conj().T

    def E(W):
        v = W @ psi
        return float(np.real(np.vdot(v, O @ v)))

    lhs = sum(float(f) * E(circ_matrix(c, n)) for c, f in zip(circs, facs))
    mats, gens = _factors(spec)
    W = np.eye(2 ** n, dtype=complex)
    for M in mats:
        W = M @ W
    D = np.zeros_like(W)
    for i in range(len(mats)):
        P = np.eye(2 ** n, dtype=complex)
        for j, Mj in enumerate(mats):
            P = (Mj @ gens[j] if j == i else Mj) @ P
        D = D + P
    rhs = 2 * float(np.real(np.vdot(D @ psi, O @ (W @ psi))))
    scale = max(1.0, float(np.linalg.norm(O, 2)) * sum(abs(tm["c"]) for tm in spec["terms"]))
    require(abs(lhs - rhs) <= 1e-7 * scale, lambda: f"factor-weighted sum {lhs} != analytic derivative {rhs} ({ns} steps)")
    return {"classes": ["steps:%d" % ns] + (["constant_term"] if any(not tm["ops"] for tm in spec["terms"]) else []), "nontrivial": ns >= 2}


# ---------------------------------------------------------------- wide registers (state-vector oracle)
# exp(-i t c P) = cos(tc) 1 - i sin(tc) P for a Pauli string P, so the action on a state vector is available without
# any 2^n x 2^n matrix: registers of up to 12 qubits, terms acting on high-numbered qubits with gaps.


def _apply_string(ops, state, n):
    out = state
    for q, p in ops:
        out = ref.embed_apply(ref.PAULI[p], [q], n, out)
    return out


def _apply_exp(ops, angle, state, n):
    return np.cos(angle) * state - 1j * np.sin(angle) * _apply_string(ops, state, n)


@st.composite
def wide_cases(draw, tier):
    hi = 12 if tier == "quick" else 14
    terms = []
    for _ in range(draw(st.integers(1, 3))):
        qs = draw(st.lists(st.one_of(st.integers(0, hi - 1), st.integers(7, hi - 1)), unique=True, min_size=1, max_size=4))
        mag = draw(st.one_of(st.floats(1e-2, 2, allow_nan=False), st.sampled_from([1.0, 0.5])))
        terms.append({"ops": [[q, draw(st.sampled_from("XYZ"))] for q in sorted(qs)], "c": mag * draw(st.sampled_from([-1, 1]))})
    return {"terms": terms, "t": draw(st.floats(-2, 2, allow_nan=False)), "steps": draw(st.integers(1, 2)),
            "seed": draw(st.integers(0, 10 ** 6)), "single": draw(st.booleans())}


def o_wide(spec):
    from orquestra.quantum.evolution import time_evolution, time_evolution_for_term
    from orquestra.quantum.operators import PauliSum

    terms = spec["terms"][:1] if spec["single"] else spec["terms"]
    n = 1 + max(q for t in terms for q, _ in t["ops"])
    t, steps = spec["t"], (1 if spec["single"] else spec["steps"])
    if spec["single"]:
        circ = must(lambda: time_evolution_for_term(pgen.build_term(terms[0]), t), "time_evolution_for_term")
    else:
        H = PauliSum([pgen.build_term(x) for x in terms])
        circ = must(lambda: time_evolution(H, t, n_steps=steps), "time_evolution")
    require(circ.n_qubits <= n, lambda: f"circuit width {circ.n_qubits} exceeds the operator's width {n}")
    rs = np.random.RandomState(spec["seed"])
    for trial in range(2):
        if trial == 0:
            psi = rs.normal(size=2 ** n) + 1j * rs.normal(size=2 ** n)
            psi /= np.linalg.norm(psi)
        else:
            psi = np.zeros(2 ** n, dtype=complex)
            psi[rs.randint(2 ** n)] = 1
        got = psi
        for op in circ.operations:
            q = tuple(op.qubit_indices)
            require(len(set(q)) == len(q) == op.gate.num_qubits and all(0 <= i < n for i in q), lambda: f"operation {op} outside the {n}-qubit support of the operator")
            got = ref.embed_apply(ref.npm(op.gate.matrix), q, n, got)
        want = psi
        for _ in range(steps):
            for x in terms:
                want = _apply_exp(x["ops"], t / steps * x["c"], want, n)
        require(ref.close(got, want, 1e-9), lambda: f"{'term' if spec['single'] else 'sum'} on {n} qubits: the circuit's action on a state differs from the product of exp(-i t c P) factors, max|d|={ref.maxdiff(got, want):.3g}")
    cl = ["width:%d" % n]
    if any(q >= 8 for x in terms for q, _ in x["ops"]) and any(len(x["ops"]) >= 2 for x in terms):
        cl.append("multi_qubit_term_reaching_qubit>=8")
    return {"classes": cl, "nontrivial": "multi_qubit_term_reaching_qubit>=8" in cl}


SUBCHECKS = [
    SubCheck("term_exhaustive", o_term, enumerate=enum_terms, exhaustive=True, shards=(4, 4),
             rule="all Pauli strings on <=3 qubits x 5 (c, t) pairs: circuit matrix == expm(-i t c P)"),
    SubCheck("term_random", o_term, strategy=term_cases, examples=(150, 800), shards=(4, 12),
             rule="strings on <=4 qubits with gaps, drawn c and t, numeric and symbolic time"),
    SubCheck("imaginary_rejected", o_imag, strategy=imag_cases, examples=(150, 600), shards=(1, 4),
             rule="|Im c| > 1e-6 (either sign) is refused with ValueError"),
    SubCheck("sum", o_sum, strategy=ham_cases, examples=(120, 600), shards=(4, 12),
             rule="time_evolution == ordered product over steps and listed terms"),
    SubCheck("derivative", o_deriv, strategy=ham_cases, examples=(100, 500), shards=(4, 12),
             rule="factor-weighted expectation over derivative circuits == analytic d/dt of the expectation"),
]
SUBCHECKS.append(SubCheck("wide_terms", o_wide, strategy=wide_cases, examples=(150, 600), shards=(4, 12),
                          rule="terms and sums acting on qubits up to 11 (13 thorough) with gaps: the circuit's action on random and basis states == product of cos(tc) - i sin(tc) P factors; non-trivial = a multi-qubit term reaching qubit >= 8"))
SUBCHECKS[5].expected_classes = ["multi_qubit_term_reaching_qubit>=8"]
SUBCHECKS[1].expected_classes = ["symbolic_time", "weight:1", "weight:2", "weight:3", "weight:4", "constant"]
SUBCHECKS[3].expected_classes = ["steps:1", "steps:2", "steps:3", "steps:4", "constant_term", "symbolic_time"]
SUBCHECKS[4].expected_classes = ["steps:1", "steps:2", "steps:3", "steps:4", "constant_term"]
