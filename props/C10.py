"""C10 - statistics computed from measurements are the exact sample statistics."""
import collections
import copy

import numpy as np
from hypothesis import strategies as st

from hypothesis.stateful import initialize, rule

from vlib.harness import SubCheck, make_trace_machine, must, must_raise, require

PROPERTY_ID = "C10"
TECHNIQUE = 'property-based testing (Hypothesis) against brute-force per-shot statistics; stateful rule-based machine for one Measurements object edited between queries'
RULE = (
    "1..40 shots of width 1..6 drawn from a small pool (heavy repetition), Ising operators with 0..6 "
    "Z-terms on drawn qubit subsets (overlapping, repeated, constants) and real coefficients; drawn "
    "count dictionaries and marked-qubit sets. Oracle: brute-force per-shot +/-1 eigenvalues in pure "
    "Python/numpy: means, pair products, covariances with and without Bessel's correction (Bessel only "
    "with >= 2 shots), parity tallies per term and per pair, counts <-> shots inverse in both "
    "directions, empirical distribution. Non-trivial: >= 2 distinct bitstrings and two terms with "
    "overlapping but different supports."
)
ASSUMPTIONS = [
    "coefficients are real Python numbers in [-3, 3]; comparisons at 1e-9 absolute (sums of <= 1000 terms of magnitude <= 9)",
    "Bessel's correction is only requested with >= 2 shots (the docstring states divergence at 1)",
    "'a constant term contributes exactly its coefficient' is read as: no sampling error, compared at 1e-12 relative (the library sums count/shots fractions in floating point, which can be 1 ulp off 1.0)",
]


@st.composite
def cases(draw, tier, wide=False):
    if wide:
        # registers wider than a machine word / a byte of packed bits, hundreds of shots
        n = draw(st.sampled_from([7, 8, 9, 15, 16, 17, 31, 32, 33, 63, 64, 65, 65, 70, 70, 130]))
        pool = draw(st.lists(st.lists(st.integers(0, 1), min_size=n, max_size=n).map(tuple), min_size=1, max_size=8))
        if draw(st.booleans()):
            # outcomes that agree almost everywhere and differ in one or two positions (often the last ones)
            base = list(pool[0])
            where = st.integers(max(0, n - 6), n - 1) if draw(st.booleans()) else st.integers(0, n - 1)
            for _ in range(draw(st.integers(1, 4))):
                v = list(base)
                for pos in draw(st.lists(where, min_size=1, max_size=2)):
                    v[pos] ^= 1
                pool.append(tuple(v))
            pool = pool[:1] + pool[-4:] if draw(st.booleans()) else pool
        shots = draw(st.lists(st.sampled_from(pool), min_size=draw(st.sampled_from([1, 2, 50, 127, 128, 255, 256, 257])), max_size=300 if tier == "quick" else 1000))
    else:
        n = draw(st.integers(1, 6))
        pool = draw(st.lists(st.tuples(*[st.integers(0, 1)] * n), min_size=1, max_size=5))
        shots = draw(st.lists(st.sampled_from(pool), min_size=draw(st.sampled_from([1, 2, 4, 8, 16])), max_size=40 if tier == "quick" else 120))
    terms = []
    for _ in range(draw(st.sampled_from([0, 1, 2, 3, 3, 4, 5, 6]))):
        qs = draw(st.lists(st.one_of(st.integers(0, n - 1), st.integers(max(0, n - 6), n - 1)), unique=True, max_size=min(n, 12)))
        c = draw(st.one_of(st.floats(-3, 3, allow_nan=False), st.integers(-2, 2)))
        terms.append({"q": sorted(qs), "c": c})
    if terms and draw(st.integers(0, 3)) == 0:
        terms.append(dict(draw(st.sampled_from(terms))))
    counts = {}
    for _ in range(draw(st.integers(1, 5))):
        k = "".join(str(b) for b in draw(st.lists(st.integers(0, 1), min_size=n, max_size=n)))
        counts[k] = draw(st.integers(1, 30) if not wide else st.sampled_from([1, 3, 255, 256, 1000, 70000]))
    marked = draw(st.lists(st.integers(0, n - 1), unique=True, max_size=min(n, 12)))
    return {"n": n, "shots": [list(s) for s in shots], "terms": terms, "as_term": draw(st.booleans()),
            "counts": counts, "marked": marked}


def _eig(b, qs):
    v = 1
    for q in qs:
        v *= 1 - 2 * b[q]
    return v


def oracle(spec):
    from orquestra.quantum.measurements import (Measurements, get_expectation_value_from_frequencies,
                                                get_parities_from_measurements)
    from orquestra.quantum.operators import PauliSum, PauliTerm

    n = spec["n"]
    shots = [tuple(s) for s in spec["shots"]]
    N = len(shots)
    terms = [PauliTerm({q: "Z" for q in t["q"]}, t["c"]) for t in spec["terms"]]
    if len(terms) == 1 and spec["as_term"]:
        op = terms[0]
    else:
        op = PauliSum(terms)
    m = Measurements(list(shots))
    T = spec["terms"]
    if T:
        vals = np.array([[t["c"] * _eig(b, t["q"]) for t in T] for b in shots], dtype=float)
        means = vals.mean(axis=0)
        corr = (vals[:, :, None] * vals[:, None, :]).mean(axis=0)
        for bessel in ([False, True] if N > 1 else [False]):
            ev = must(lambda: m.get_expectation_values(op, bessel), "get_expectation_values")
            cov = (corr - np.outer(means, means)) / (N - (1 if bessel else 0))
            require(len(ev.values) == len(T), lambda: f"{len(ev.values)} expectation values for {len(T)} terms")
            require(np.allclose(ev.values, means, rtol=0, atol=1e-9), lambda: f"values {list(ev.values)} != coefficient x sample mean {list(means)}")
            require(len(ev.correlations) == 1 and np.allclose(ev.correlations[0], corr, rtol=0, atol=1e-9), lambda: f"correlations differ from the sample means of products (bessel={bessel})")
            require(len(ev.estimator_covariances) == 1 and np.allclose(ev.estimator_covariances[0], cov, rtol=0, atol=1e-9), lambda: f"covariances differ from (corr - mean x mean)/{N - (1 if bessel else 0)} (bessel={bessel})")
        for i, t in enumerate(T):
            if not t["q"]:
                ev = m.get_expectation_values(op)
                require(abs(ev.values[i] - t["c"]) <= 1e-12 * max(1.0, abs(t["c"])), lambda: f"constant term contributes {ev.values[i]!r}, not its coefficient {t['c']!r}")
        par = must(lambda: get_parities_from_measurements(list(shots), op), "get_parities_from_measurements")
        for i, t in enumerate(T):
            even = sum(1 for b in shots if sum(b[q] for q in t["q"]) % 2 == 0)
            require([int(x) for x in par.values[i]] == [even, N - even], lambda: f"parity tally of term {i} is {list(par.values[i])}, expected {[even, N - even]}")
            for j, u in enumerate(T):
                same = sum(1 for b in shots if (sum(b[q] for q in t["q"]) + sum(b[q] for q in u["q"])) % 2 == 0)
                got = [int(x) for x in par.correlations[0][i, j]]
                require(got == [same, N - same], lambda: f"pair parity tally ({i},{j}) is {got}, expected {[same, N - same]}")
    # non-Ising operators are refused
    if n >= 1:
        must_raise(Exception, lambda: m.get_expectation_values(PauliSum([PauliTerm({0: "X"}, 1.0)])), "expectation values of a non-Ising operator")
    # counts
    cnt = must(m.get_counts, "get_counts")
    ref_cnt = collections.Counter("".join(map(str, b)) for b in shots)
    require(cnt == dict(ref_cnt), lambda: f"counts {cnt} != tally {dict(ref_cnt)}")
    require(sum(cnt.values()) == N, "counts do not sum to the number of shots")
    back = must(lambda: Measurements.from_counts(cnt), "from_counts")
    require(collections.Counter(back.bitstrings) == collections.Counter(shots), "from_counts(get_counts()) is not the same multiset of shots")
    c2 = dict(spec["counts"])
    m2 = must(lambda: Measurements.from_counts(copy.deepcopy(c2)), "from_counts")
    require(m2.get_counts() == c2, lambda: f"from_counts({c2}).get_counts() == {m2.get_counts()}")
    require(all(isinstance(b, tuple) and len(b) == n for b in m2.bitstrings), "from_counts produced malformed shots")
    m3 = Measurements(list(shots))
    must(lambda: m3.add_counts(copy.deepcopy(c2)), "add_counts")
    want = collections.Counter(shots)
    for k, v in c2.items():
        want[tuple(int(x) for x in k)] += v
    require(collections.Counter(m3.bitstrings) == want and m3.bitstrings[:N] == shots, "add_counts did not append exactly the listed shots")
    # empirical distribution
    d = must(m.get_distribution, "get_distribution").distribution_dict
    require(len(d) == len(cnt), "distribution has a different support than the counts")
    for k, v in cnt.items():
        key = k if k in d else tuple(int(x) for x in k)
        require(key in d and abs(d[key] - v / N) <= 1e-12, lambda: f"distribution[{k}] = {d.get(key)} != {v}/{N}")
    # frequencies
    e = must(lambda: get_expectation_value_from_frequencies(list(spec["marked"]), dict(cnt)), "get_expectation_value_from_frequencies")
    want_e = sum(_eig(b, spec["marked"]) for b in shots) / N
    require(abs(e - want_e) <= 1e-9, lambda: f"frequency expectation {e} != sample mean {want_e} on qubits {spec['marked']}")
    e2 = must(lambda: get_expectation_value_from_frequencies(list(spec["marked"]), dict(c2)), "get_expectation_value_from_frequencies")
    tot = sum(c2.values())
    want_e2 = sum(v * _eig([int(x) for x in k], spec["marked"]) for k, v in c2.items()) / tot
    require(abs(e2 - want_e2) <= 1e-9, lambda: f"frequency expectation {e2} != weighted mean {want_e2}")
    require(m.bitstrings == shots, "Measurements object changed while being queried")
    distinct = len(set(shots))
    overlap = any(set(a["q"]) & set(b["q"]) and set(a["q"]) != set(b["q"]) for a in T for b in T)
    cl = []
    if any(not t["q"] for t in T):
        cl.append("constant_term")
    if overlap:
        cl.append("overlapping_supports")
    if N == 1:
        cl.append("single_shot")
    if len({tuple(t["q"]) for t in T}) < len(T):
        cl.append("repeated_support")
    return {"classes": cl, "nontrivial": distinct >= 2 and overlap}


# ---------------------------------------------------------------- the same object queried across changes of its shots


def machine(on_end, expired):
    from orquestra.quantum.measurements import Measurements
    from orquestra.quantum.operators import PauliSum, PauliTerm

    Base = make_trace_machine(on_end, expired)
    N = 3
    shots_st = st.lists(st.tuples(*[st.integers(0, 1)] * N).map(list), min_size=1, max_size=6)

    class MeasMachine(Base):
        def __init__(self):
            super().__init__()
            self.m = None
            self.model = []
            self.queried = False

        def _query(self, which):
            cnt = must(self.m.get_counts, "get_counts")
            want = dict(collections.Counter("".join(map(str, b)) for b in self.model))
            require(cnt == want, lambda: f"counts {cnt} are not the tally {want} of the shots the object holds now")
            if which >= 1:
                d = must(self.m.get_distribution, "get_distribution").distribution_dict
                for k, v in want.items():
                    key = tuple(int(x) for x in k)
                    require(abs(d.get(key, d.get(k, -1)) - v / len(self.model)) <= 1e-12, lambda: f"distribution {d} is not counts / shots for the current shots")
            if which >= 2:
                op = PauliSum([PauliTerm({0: "Z"}, 1.0), PauliTerm({1: "Z", 2: "Z"}, -0.5)])
                ev = must(lambda: self.m.get_expectation_values(op), "get_expectation_values")
                w0 = sum(1 - 2 * b[0] for b in self.model) / len(self.model)
                w1 = -0.5 * sum((1 - 2 * b[1]) * (1 - 2 * b[2]) for b in self.model) / len(self.model)
                require(abs(ev.values[0] - w0) <= 1e-9 and abs(ev.values[1] - w1) <= 1e-9, lambda: f"expectation values {list(ev.values)} are not the sample means {[w0, w1]} of the current shots")
            self.queried = True

        @initialize(shots=shots_st)
        def init(self, shots):
            def go():
                self.model = [tuple(b) for b in shots]
                self.m = Measurements(list(self.model))
            self.step("init", {"shots": shots}, go)

        @rule(which=st.integers(0, 2))
        def query(self, which):
            self.step("query", {"which": which}, lambda: self._query(which))

        @rule(shots=shots_st)
        def replace(self, shots):
            def go():
                self.model = [tuple(b) for b in shots]
                self.m.bitstrings = list(self.model)
                if self.queried:
                    self.info["nontrivial"] = True
                    self.info["classes"].add("replaced_after_query")
                self._query(0)
            self.step("replace", {"shots": shots}, go)

        @rule(i=st.integers(0, 10), b=st.tuples(*[st.integers(0, 1)] * N).map(list))
        def set_item(self, i, b):
            def go():
                k = i % len(self.model)
                self.model[k] = tuple(b)
                self.m.bitstrings[k] = tuple(b)
                if self.queried:
                    self.info["nontrivial"] = True
                    self.info["classes"].add("edited_after_query")
                self._query(1)
            self.step("set_item", {"i": i, "b": b}, go)

        @rule(key=st.tuples(*[st.integers(0, 1)] * N), n=st.integers(1, 4))
        def add_counts(self, key, n):
            def go():
                must(lambda: self.m.add_counts({"".join(map(str, key)): n}), "add_counts")
                self.model += [tuple(key)] * n
                self.info["classes"].add("add_counts")
                self._query(2)
            self.step("add_counts", {"key": list(key), "n": n}, go)

        @rule(b=st.tuples(*[st.integers(0, 1)] * N).map(list))
        def extend(self, b):
            def go():
                self.m.bitstrings += [tuple(b)]
                self.model.append(tuple(b))
                self._query(0)
            self.step("extend", {"b": b}, go)

        def inv(self):
            if self.m is not None:
                require([tuple(x) for x in self.m.bitstrings] == self.model, "the object's shots differ from the model")

    return MeasMachine


SUBCHECKS = [
    SubCheck("sample_statistics", oracle, strategy=cases, examples=(1500, 6000), shards=(8, 16), rule=RULE),
]
SUBCHECKS.append(SubCheck("measurement_history", None, machine=machine, examples=(300, 2000), shards=(2, 8), steps=(12, 25),
                          rule="one Measurements object queried (counts / distribution / expectation values) between replacements, edits and extensions of "
                               "its shots: every report equals the statistic of the shots it holds at that moment; non-trivial = shots replaced or edited after a query"))
SUBCHECKS.append(SubCheck("wide_long", oracle, strategy=lambda tier: cases(tier, wide=True), examples=(250, 1200), shards=(4, 16),
                          rule="same oracle on registers of 7..70 qubits (around byte / word boundaries), up to 300 (1000) shots, counts up to 70000"))
SUBCHECKS[0].expected_classes = ["constant_term", "overlapping_supports", "single_shot", "repeated_support"]
