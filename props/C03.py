"""C03 - Pauli operator arithmetic is faithful to matrix arithmetic."""
import itertools

import numpy as np
from hypothesis import strategies as st

from vlib import pgen, ref
from vlib.harness import SubCheck, must, require

PROPERTY_ID = "C03"
TECHNIQUE = 'exhaustive enumeration (all 64x64 three-qubit string pairs) + property-based testing of expression trees against an independent canonical-form Pauli algebra'
RULE = (
    "(i) exhaustive: all 64x64 ordered products of Pauli strings on 3 qubits against np.kron "
    "matrices; (ii) Hypothesis-drawn operand pairs (term/sum/number mixed on either side) under "
    "+ - * / ** against dense matrix arithmetic on 4 qubits; (iii) expression trees of depth <=3 "
    "(4 thorough) with qubit gaps and large indices against an independent canonical-form algebra "
    "whose product table is derived from the 2x2 matrices; (iv) simplify and (v) equality laws. "
    "Non-trivial: a product of operands sharing a qubit with different Paulis, a sum with a "
    "duplicate/zero term, or a number on the left."
)
ASSUMPTIONS = [
    "coefficients are exactly 0 or have magnitude in [1e-3, 1e3]; nothing is asserted about "
    "equality in the band between the library's hash granularity (1e-6) and 1e-3",
    "tolerance is operand-relative (1e-12 * product of the operands' unmerged coefficient magnitudes) plus an allowance of "
    "1e-8 per coefficient below 2e-8 in the RESULT of an operation (incl. the intermediate powers of x**k, the (-1)*b of a - b and "
    "an explicit simplify()): the library drops such coefficients when it simplifies results; operands as written get no allowance",
]

# relative accuracy demanded of the arithmetic (operand-relative); double rounding is ~1e-16 per operation
REL = 1e-12

STR3 = list(itertools.product("IXYZ", repeat=3))
MAT3 = {s: ref.pauli_string_matrix({i: p for i, p in enumerate(s) if p != "I"}, 3) for s in STR3}


def _enum_products(tier):
    for a in STR3:
        for b in STR3:
            yield {"a": "".join(a), "b": "".join(b)}


def o_product(spec):
    from orquestra.quantum.operators import PauliTerm

    a, b = tuple(spec["a"]), tuple(spec["b"])
    ta = PauliTerm({i: p for i, p in enumerate(a)})
    tb = PauliTerm({i: p for i, p in enumerate(b)})
    r = must(lambda: ta * tb, "term * term")
    M = pgen.lib_matrix(r, 3)
    R = MAT3[a] @ MAT3[b]
    require(ref.close(M, R, 1e-12), lambda: f"{spec['a']}*{spec['b']} denotes the wrong matrix")
    shared = any(x != "I" and y != "I" and x != y for x, y in zip(a, b))
    return {"nontrivial": shared}


# ---------------------------------------------------------------- trees


def _leaf(max_q, big):
    return pgen.operands(max_q=max_q, big_index=big, near_cancel=True)


def tree_nodes(max_q, depth, big=False):
    leaf = _leaf(max_q, big)
    if depth == 0:
        return leaf
    sub = tree_nodes(max_q, depth - 1, big)
    return st.one_of(
        leaf,
        st.builds(lambda op, a, b: {"op": op, "a": a, "b": b}, st.sampled_from(["+", "-", "*"]), sub, sub),
        st.builds(lambda a, s: {"op": "/", "a": a, "s": s}, sub, pgen.coefs(zero=False)),
        st.builds(lambda a, k: {"op": "**", "a": a, "k": k}, sub, st.integers(0, 4)),
    )


def is_num(x):
    return isinstance(x, (int, float, complex))


def eval_lib(node):
    if "op" not in node:
        return pgen.build_operand(node)
    a = eval_lib(node["a"])
    op = node["op"]
    if op == "/":
        return a / pgen.coef(node["s"])
    if op == "**":
        return a ** node["k"]
    b = eval_lib(node["b"])
    if op == "+":
        return a + b
    if op == "-":
        return a - b
    return a * b


def eval_ref(node):
    """-> (canonical dict, norm bound of operands chain, allowance for dropped tiny terms)"""
    if "op" not in node:
        c = pgen.canon_operand(node)
        # an operand as written is used as it is: the library simplifies (and may drop coefficients below its 1e-8 zero
        # tolerance) only in the RESULT of an operation - that is where the allowance below is added, never here
        return c, max(pgen.raw_norm(node), 1e-300), 0.0
    a, na, ea = eval_ref(node["a"])
    op = node["op"]
    if op == "simplify":
        # denotes the same operator; coefficients below the library's 1e-8 zero tolerance may be dropped
        return a, na, ea + 1e-8 * sum(1 for v in a.values() if 0 < abs(v) <= 2e-8)
    if op == "/":
        s = pgen.coef(node["s"])
        r, nb, e = pgen.canon_scale(a, 1.0 / s), na / abs(s), ea / abs(s)
    elif op == "**":
        k = node["k"]
        r = pgen.canon_pow(a, k)
        nb = max(na, 1.0) ** k if k else 1.0
        e = k * ea * max(na + ea, 1.0) ** max(k - 1, 0) * max(k, 1)
        # the library simplifies every intermediate power (it squares and multiplies): a coefficient of some a**m, m < k,
        # that lies below its 1e-8 zero tolerance is dropped there and is missing, times the remaining factors, at the end
        pm = {(): 1 + 0j}
        for m in range(1, k):
            pm = pgen.canon_mul(pm, a)
            tiny_m = sum(1 for v in pm.values() if 0 < abs(v) <= 2e-8)
            e += k * 1e-8 * tiny_m * max(na, 1.0) ** (k - m)
    else:
        b, nbb, eb = eval_ref(node["b"])
        if op == "+":
            r, nb, e = pgen.canon_add(a, b), na + nbb, ea + eb
        elif op == "-":
            # a - b is computed as a + (-1) * b: the intermediate (-1) * b is a result too, and is simplified
            r, nb, e = pgen.canon_add(a, b, -1), na + nbb, ea + eb + 1e-8 * sum(1 for v in b.values() if 0 < abs(v) <= 2e-8)
        else:
            r, nb, e = pgen.canon_mul(a, b), na * nbb, ea * nbb + eb * na + ea * eb
    tiny = sum(1 for v in r.values() if 0 < abs(v) <= 2e-8)
    return r, nb, e + 1e-8 * tiny


def _tree_classes(node, acc=None):
    acc = set() if acc is None else acc
    if "op" in node:
        acc.add("op" + node["op"])
        if "b" in node:
            la, lb = node["a"], node["b"]
            if "n" in la and "n" not in lb:
                acc.add("number_on_left")
        _tree_classes(node["a"], acc)
        if "b" in node:
            _tree_classes(node["b"], acc)
    else:
        if "s" in node:
            ts = node["s"]["terms"]
            if not ts:
                acc.add("empty_sum")
            keys = [tuple(map(tuple, t["ops"])) for t in ts]
            if len(set(keys)) < len(keys):
                acc.add("duplicate_terms")
            if any(pgen.coef(t["c"]) == 0 for t in ts):
                acc.add("zero_coefficient")
    return acc


def _all_numbers(node):
    if "op" not in node:
        return "n" in node
    return _all_numbers(node["a"]) and ("b" not in node or _all_numbers(node["b"]))


def o_tree(spec):
    node = spec["tree"]
    if _all_numbers(node):
        return {"inconclusive": "pure_number_tree"}
    R, bound, allow = eval_ref(node)
    if not np.isfinite(bound) or bound > 1e30:
        return {"inconclusive": "magnitude_overflow"}
    L = must(lambda: eval_lib(node), "operator arithmetic")
    C = pgen.canon_of(L)
    d = pgen.canon_diff(C, R)
    tol = REL * bound + allow + 1e-300
    require(d <= tol, lambda: f"result differs from matrix arithmetic: max coefficient error {d:.3g} > {tol:.3g}; got {L!r}")
    cl = _tree_classes(node)
    shared = False
    if node.get("op") == "*":
        ca, cb = eval_ref(node["a"])[0], eval_ref(node["b"])[0]
        for ka in ca:
            for kb in cb:
                da, db = dict(ka), dict(kb)
                if any(q in db and db[q] != p for q, p in da.items()):
                    shared = True
    if shared:
        cl.add("phase_table_used")
    nt = shared or bool(cl & {"duplicate_terms", "zero_coefficient", "number_on_left"})
    return {"classes": cl, "nontrivial": nt}


def trees(tier):
    depth = 3 if tier == "quick" else 4
    return st.builds(lambda t: {"tree": t}, tree_nodes(5, depth, big=True))


# ---------------------------------------------------------------- dense binary ops


@st.composite
def binops(draw, tier):
    a = draw(pgen.operands(max_q=4, near_cancel=True))
    b = draw(pgen.operands(max_q=4, near_cancel=True))
    op = draw(st.sampled_from(["+", "-", "*", "*", "/", "**"]))
    if op == "/":
        return {"tree": {"op": "/", "a": a, "s": draw(pgen.coefs(zero=False))}}
    if op == "**":
        return {"tree": {"op": "**", "a": a, "k": draw(st.integers(0, 5))}}
    return {"tree": {"op": op, "a": a, "b": b}}


def _dense(o, n):
    return pgen.canon_matrix(pgen.canon_operand(o), n)


def o_binop(spec):
    node = spec["tree"]
    if _all_numbers(node):
        return {"inconclusive": "pure_number_tree"}
    n = 4
    A = _dense(node["a"], n)
    na = max(pgen.raw_norm(node["a"]), 1e-300)
    op = node["op"]
    if op == "/":
        s = pgen.coef(node["s"])
        R, bound = A / s, na / abs(s)
    elif op == "**":
        R, bound = np.linalg.matrix_power(A, node["k"]), max(na, 1.0) ** node["k"]
    else:
        B = _dense(node["b"], n)
        nb = max(pgen.raw_norm(node["b"]), 1e-300)
        R = A + B if op == "+" else A - B if op == "-" else A @ B
        bound = na * nb if op == "*" else na + nb
    L = must(lambda: eval_lib(node), f"operator {op}")
    if "n" in node["a"] and op in ("/", "**"):
        return {"inconclusive": "number_base"}
    M = pgen.lib_matrix(L, n)
    _, _, allow = eval_ref(node)
    d = ref.maxdiff(M, R)
    tol = REL * bound + allow * 16
    require(d <= tol, lambda: f"matrix of result differs by {d:.3g} > {tol:.3g}; got {L!r}")
    return o_tree(spec)


# ---------------------------------------------------------------- simplify / equality


@st.composite
def sum_cases(draw, tier):
    s = draw(pgen.sums(max_q=5, max_terms=8, big_index=True, near_cancel=True))
    return {"s": s}


def o_simplify(spec):
    s = pgen.build_sum(spec["s"])
    R = pgen.canon_sum(spec["s"])
    r = must(s.simplify, "simplify")
    C = pgen.canon_of(r)
    tiny = sum(1 for v in R.values() if 0 < abs(v) <= 2e-8)
    bound = sum(abs(pgen.coef(t["c"])) for t in spec["s"]["terms"])
    d = pgen.canon_diff(C, R)
    require(d <= REL * bound + 1e-8 * tiny, lambda: f"simplify changed the operator by {d:.3g}")
    keys = [tuple(sorted(t.operations)) for t in r.terms]
    require(len(set(keys)) == len(keys), "simplify left like terms unmerged")
    require(all(abs(t.coefficient) > 1e-8 for t in r.terms), "simplify kept a zero term")
    # idempotent
    r2 = must(r.simplify, "simplify twice")
    require(pgen.canon_diff(pgen.canon_of(r2), C) == 0 and len(r2.terms) == len(r.terms), "simplify not idempotent")
    ks = [tuple(map(tuple, t["ops"])) for t in spec["s"]["terms"]]
    cl = []
    if len(set(ks)) < len(ks):
        cl.append("duplicate_terms")
    if any(pgen.coef(t["c"]) == 0 for t in spec["s"]["terms"]):
        cl.append("zero_coefficient")
    if not ks:
        cl.append("empty_sum")
    return {"classes": cl, "nontrivial": bool(cl) and "empty_sum" not in cl}


@st.composite
def eq_cases(draw, tier):
    exact = pgen.sums(max_q=4, max_terms=5, kinds=("int",), zero=False, dup=False)
    s = draw(st.one_of(exact, pgen.sums(max_q=4, max_terms=5, zero=False, dup=False)))
    seed = draw(st.integers(0, 10 ** 6))
    delta_idx = draw(st.integers(0, 7))
    delta = draw(st.sampled_from([1e-3, -1e-3, 0.5, 1.0, ["c", 0.0, 1e-3], ["c", 0.0, -2.0]]))
    mode = draw(st.sampled_from(["perm", "perturb", "letter", "routes", "drop", "decimal_routes"]))
    if mode == "decimal_routes":
        # coefficients that are short decimals (k/10, k/100, k/8): sums and products of such numbers are routinely off by one
        # unit in the last place from the decimal one would write, i.e. by 1e-16 - far inside the 1e-8 tolerance of ==
        ts = draw(st.lists(pgen.terms(max_q=4, zero=False, kinds=("int",)), min_size=1, max_size=4, unique_by=lambda t: tuple(map(tuple, t["ops"]))))
        for t in ts:
            den = draw(st.sampled_from([10, 10, 100, 8, 5]))
            t["c"] = draw(st.integers(2, 40)) / den * draw(st.sampled_from([1, -1]))
            t["j"] = draw(st.integers(1, 39))
            t["den"] = den
        return {"s": {"terms": ts}, "seed": seed, "di": delta_idx, "delta": delta, "mode": mode,
                "factor": draw(st.sampled_from([0.3, 0.1, 0.7, 3, 1.1, 0.6]))}
    return {"s": s, "seed": seed, "di": delta_idx, "delta": delta, "mode": mode}


def o_equality(spec):
    import random as _r
    from orquestra.quantum.operators import PauliSum, PauliTerm

    base = must(lambda: pgen.build_sum({"terms": [{"ops": t["ops"], "c": t["c"]} for t in spec["s"]["terms"]]}).simplify(), "simplify")
    terms = list(base.terms)
    if not terms:
        return {"inconclusive": "empty_after_simplify"}
    rnd = _r.Random(spec["seed"])
    mode = spec["mode"]
    if mode == "decimal_routes":
        # the same operator reached by other arithmetic routes; every coefficient agrees with the direct one to a few 1e-16
        split = PauliSum()
        for t in spec["s"]["terms"]:
            c, den = t["c"], t["den"]
            k = round(abs(c) * den)
            j = 1 + t["j"] % (k - 1)
            sgn = 1 if c > 0 else -1
            p = PauliTerm({int(q): l for q, l in t["ops"]})
            split = split + (sgn * (j / den)) * p + (sgn * ((k - j) / den)) * p
        f = spec["factor"]
        routes = {"c1 + c2": split, "(x * f) / f": (base * f) / f, "f*x - (f-1)*x": f * base - (f - 1) * base,
                  "distributed": terms[0] * f + PauliSum(terms[1:]) * f if len(terms) > 1 else terms[0] * f}
        want = {"distributed": base * f}
        worst = 0.0
        for name, other in routes.items():
            ref_side = want.get(name, base)
            d = pgen.canon_diff(pgen.canon_of(other), pgen.canon_of(ref_side))
            worst = max(worst, d)
            if d > 1e-12:
                return {"inconclusive": "route_not_equal_enough"}  # harness arithmetic, not the library's ==
            require(must(lambda: ref_side == other, "==") is True,
                    lambda: f"operators whose coefficients differ by {d:.3g} (route {name}) compare unequal: {ref_side!r} vs {other!r}")
            require(must(lambda: other == ref_side, "==") is True, lambda: f"== not symmetric (route {name})")
        # the zero operator reached by different routes: every one of them denotes the zero matrix (to 1e-8), so they are
        # equal to each other and to the empty sum, before and after an explicit simplify()
        zero = PauliSum()
        zroutes = {"0 * x": 0 * base, "0.0 * x": 0.0 * base, "x * 0": base * 0, "x - x": base - base, "1e-10 * x": 1e-10 * base,
                   "0j * x": 0j * base, "x * 0 + 0 * x": base * 0 + 0 * base}
        for name, z in zroutes.items():
            for label, obj in ((name, z), (name + " simplified", must(z.simplify, "simplify"))):
                require(pgen.canon_norm(pgen.canon_of(obj)) <= 1e-8, lambda: f"{label} does not denote the zero matrix: {obj!r}")
                require(must(lambda: obj == zero, "==") is True and must(lambda: zero == obj, "==") is True,
                        lambda: f"{label} denotes the zero matrix but does not compare equal to the empty sum: {obj!r}")
                require(must(lambda: obj == zroutes["x * 0"], "==") is True, lambda: f"{label} and x * 0 both denote the zero matrix but compare unequal: {obj!r}")
        return {"classes": ["decimal_routes"] + (["last_place_differs"] if worst > 0 else []), "nontrivial": worst > 0}
    if mode == "perm":
        perm = terms[:]
        rnd.shuffle(perm)
        other = PauliSum([t.copy() for t in perm])
        require(must(lambda: base == other, "==") is True, "simplified sum != term-permuted copy of itself")
        require(must(lambda: other == base, "==") is True, "equality not symmetric on permuted copy")
        if len(terms) == 1:
            require(must(lambda: base == terms[0], "sum == term") is True, "single-term sum != its term")
            require(must(lambda: terms[0] == base, "term == sum") is True, "term != single-term sum")
        return {"classes": ["perm"], "nontrivial": len(terms) >= 2 and perm != terms}
    i = spec["di"] % len(terms)
    if mode == "perturb":
        new = [t.copy() for t in terms]
        new[i] = terms[i].copy(terms[i].coefficient + pgen.coef(spec["delta"]))
        if abs(new[i].coefficient) <= 1e-8:
            return {"inconclusive": "perturbation_cancels"}
        other = PauliSum(new)
        require(must(lambda: base == other, "==") is False, lambda: f"operators differing by {spec['delta']} in one coefficient compare equal")
        require(must(lambda: other == base, "==") is False, "inequality not symmetric")
        return {"classes": ["perturb"], "nontrivial": True}
    if mode == "letter":
        ops = dict(terms[i]._ops) if hasattr(terms[i], "_ops") else dict((q, p) for q, p in terms[i].operations)
        if not ops:
            ops = {0: "X"}
        else:
            q = sorted(ops)[0]
            ops[q] = {"X": "Y", "Y": "Z", "Z": "X"}[ops[q]]
        cand = PauliTerm(ops, terms[i].coefficient)
        if any(tuple(sorted(cand.operations)) == tuple(sorted(t.operations)) for t in terms):
            return {"inconclusive": "letter_change_collides"}
        new = [t.copy() for t in terms]
        new[i] = cand
        other = PauliSum(new)
        require(must(lambda: base == other, "==") is False, "operators with a different Pauli letter compare equal")
        return {"classes": ["letter"], "nontrivial": True}
    if mode == "drop":
        if len(terms) < 2:
            return {"inconclusive": "single_term"}
        other = PauliSum([t.copy() for j, t in enumerate(terms) if j != i])
        require(must(lambda: base == other, "==") is False, "sum equals itself with a term removed")
        return {"classes": ["drop"], "nontrivial": True}
    # routes: build the same operator by a different arithmetic route (exact for int coefficients)
    if not all(isinstance(t.coefficient, int) or float(abs(t.coefficient)).is_integer() for t in terms if not isinstance(t.coefficient, complex)) or any(isinstance(t.coefficient, complex) for t in terms):
        return {"inconclusive": "non_exact_coefficients"}
    acc = PauliSum()
    order = terms[:]
    rnd.shuffle(order)
    for t in order:
        half = t.copy(t.coefficient * 2)
        acc = acc + half - t  # 2c - c, exact for integers
    require(must(lambda: base == acc, "==") is True, lambda: f"equal operators built by different routes compare unequal: {base!r} vs {acc!r}")
    doubled = (base * 2) / 2 if rnd.random() < 0.5 else (2 * base) - base
    require(must(lambda: base == doubled, "==") is True, "x*2/2 (or 2x-x) != x for integer coefficients")
    return {"classes": ["routes"], "nontrivial": len(terms) >= 2}



# ---------------------------------------------------------------- shared operands (the same object used repeatedly)


def shared_nodes(n_pool, depth):
    leaf = st.integers(0, n_pool - 1).map(lambda i: {"ref": i})
    if depth == 0:
        return leaf
    sub = shared_nodes(n_pool, depth - 1)
    return st.one_of(
        leaf,
        st.builds(lambda op, a, b: {"op": op, "a": a, "b": b}, st.sampled_from(["+", "-", "*", "+"]), sub, sub),
        st.builds(lambda a, k: {"op": "**", "a": a, "k": k}, sub, st.integers(0, 3)),
        st.builds(lambda a: {"op": "simplify", "a": a}, sub),
    )


@st.composite
def shared_cases(draw, tier):
    pool = draw(st.lists(pgen.operands(max_q=3, numbers=False, near_cancel=True), min_size=1, max_size=3))
    return {"pool": pool, "tree": draw(shared_nodes(len(pool), 3 if tier == "quick" else 4)),
            "tree2": draw(shared_nodes(len(pool), 2))}


def _subst(node, pool):
    if "ref" in node:
        return pool[node["ref"]]
    out = dict(node)
    out["a"] = _subst(node["a"], pool)
    if "b" in node:
        out["b"] = _subst(node["b"], pool)
    return out


def _eval_shared(node, objs):
    if "ref" in node:
        return objs[node["ref"]]
    a = _eval_shared(node["a"], objs)
    op = node["op"]
    if op == "**":
        return a ** node["k"]
    if op == "simplify":
        return a.simplify() if hasattr(a, "simplify") else a
    b = _eval_shared(node["b"], objs)
    return a + b if op == "+" else a - b if op == "-" else a * b


def _strip_simplify(node):
    if "ref" in node or "op" not in node:
        return node
    if node["op"] == "simplify":
        return _strip_simplify(node["a"])
    out = dict(node)
    out["a"] = _strip_simplify(node["a"])
    if "b" in node:
        out["b"] = _strip_simplify(node["b"])
    return out


def o_shared(spec):
    objs = [pgen.build_operand(o) for o in spec["pool"]]
    canons = [pgen.canon_operand(o) for o in spec["pool"]]
    uses = 0
    # the same objects are used by three expressions in a row: an operation that modified an
    # operand would make a later expression denote the wrong matrix
    for tree in (spec["tree"], spec["tree2"], spec["tree"]):
        full = _subst(tree, spec["pool"])
        R, bound, allow = eval_ref(full)
        if not np.isfinite(bound) or bound > 1e30:
            return {"inconclusive": "magnitude_overflow"}
        L = must(lambda: _eval_shared(tree, objs), "operator arithmetic on shared operands")
        d = pgen.canon_diff(pgen.canon_of(L), R)
        tol = REL * bound + allow + 1e-300
        drift = [i for i, (o, c) in enumerate(zip(objs, canons)) if pgen.canon_diff(pgen.canon_of(o), c) > 0]
        require(d <= tol, lambda: f"expression over shared operands differs from matrix arithmetic by {d:.3g} > {tol:.3g}; got {L!r}" + (f" (operands {drift} were modified by an earlier operation)" if drift else ""))
    def count(node):
        return 1 if "ref" in node else count(node["a"]) + (count(node["b"]) if "b" in node else 0)
    uses = count(spec["tree"])
    return {"classes": ["reuse>=3"] if uses >= 3 else [], "nontrivial": uses > len(spec["pool"])}


# ---------------------------------------------------------------- nearly equal operands in one process
# The library's hash rounds coefficients to 1e-6 and its == uses np.allclose, so two operators
# that differ by a few 1e-7 hash and compare equal although they denote different matrices
# (difference far above the 1e-12 relative accuracy of the arithmetic). Arithmetic must still
# treat them as the different operators they are, whatever was computed before.

DELTAS = [0.0, 3e-7, -2e-7, 4e-8, 1e-9, 6e-7]


def _perturb(c, d):
    if isinstance(c, list):
        return ["c", c[1] * (1 + d), c[2] * (1 + d)]
    return c * (1 + d) if d else c


def _variant(x, j, d):
    if "t" in x:
        t = dict(x["t"])
        t["c"] = _perturb(t["c"], d)
        return {"t": t}
    ts = [dict(t) for t in x["s"]["terms"]]
    ts[j % len(ts)]["c"] = _perturb(ts[j % len(ts)]["c"], d)
    return {"s": {"terms": ts}}


@st.composite
def near_cases(draw, tier):
    kinds = draw(st.sampled_from([("int",), ("int", "float"), ("complex",), ("int", "complex")]))
    x = draw(st.one_of(
        pgen.terms(max_q=3, zero=False, kinds=kinds).map(lambda t: {"t": t}),
        pgen.sums(max_q=3, max_terms=3, zero=False, kinds=kinds, dup=False).filter(lambda s: s["terms"]).map(lambda s: {"s": s})))
    y = draw(pgen.operands(max_q=3, numbers=True, zero=False, kinds=("int", "float")))
    return {"x": x, "y": y, "j": draw(st.integers(0, 3)),
            "deltas": draw(st.lists(st.sampled_from(DELTAS), min_size=2, max_size=4)),
            "op": draw(st.sampled_from(["**", "**", "*", "r*", "+", "-", "self*", "/"])), "k": draw(st.integers(2, 4))}


def o_near(spec):
    op = spec["op"]
    for i, d in enumerate(spec["deltas"]):
        v = _variant(spec["x"], spec["j"], d)
        if op == "**":
            node = {"op": "**", "a": v, "k": spec["k"]}
        elif op == "self*":
            node = {"op": "*", "a": v, "b": v}
        elif op == "r*":
            node = {"op": "*", "a": spec["y"], "b": v}
        elif op == "/":
            node = {"op": "/", "a": v, "s": 3}
        else:
            node = {"op": op, "a": v, "b": spec["y"]}
        R, bound, allow = eval_ref(node)
        if not np.isfinite(bound) or bound > 1e12:
            return {"inconclusive": "magnitude_overflow"}
        L = must(lambda: eval_lib(node), "operator arithmetic")
        dd = pgen.canon_diff(pgen.canon_of(L), R)
        tol = REL * bound + allow + 1e-300
        require(dd <= tol, lambda: f"operand variant {i} (one coefficient scaled by 1+{d}) under '{op}': result differs from matrix arithmetic by {dd:.3g} > {tol:.3g}; got {L!r}")
    ds = set(spec["deltas"])
    return {"classes": ["op" + op], "nontrivial": len(ds) >= 2}


SUBCHECKS = [
    SubCheck("exhaustive_products", o_product, enumerate=_enum_products, exhaustive=True, shards=(4, 4),
             rule="all 4096 ordered pairs of 3-qubit Pauli strings vs np.kron matrices; non-trivial = a shared qubit with different letters"),
    SubCheck("binary_ops", o_binop, strategy=binops, examples=(700, 4000), shards=(4, 12),
             rule="operand pairs under + - * / ** vs dense 16x16 matrix arithmetic"),
    SubCheck("trees", o_tree, strategy=trees, examples=(700, 4000), shards=(4, 12),
             rule="expression trees vs canonical-form algebra (gaps, indices up to 1200)"),
    SubCheck("simplify", o_simplify, strategy=sum_cases, examples=(500, 3000), shards=(2, 8),
             rule="simplify keeps the operator, merges like terms, drops zeros, idempotent; non-trivial = duplicate or zero term present"),
    SubCheck("equality", o_equality, strategy=eq_cases, examples=(600, 3000), shards=(2, 8),
             rule="== on simplified operators: permuted copies equal, clearly different operators unequal, exact alternative routes equal"),
]
SUBCHECKS.append(SubCheck("shared_operands", o_shared, strategy=shared_cases, examples=(500, 3000), shards=(2, 8),
                          rule="expression DAGs in which the same operand object occurs several times (incl. x+x, x*x, simplify): result == matrix arithmetic and every operand still denotes its matrix; non-trivial = an operand used more than once"))
SUBCHECKS.append(SubCheck("near_duplicates", o_near, strategy=near_cases, examples=(600, 3000), shards=(2, 8),
                          rule="2-4 copies of one operand with a coefficient scaled by 1+d, d in {0, 1e-9 .. 6e-7} (hash- and allclose-equal for the library, different matrices), pushed through the same operation one after another in one process: each result equals matrix arithmetic at 1e-12 relative; non-trivial = at least two different d"))
SUBCHECKS[2].expected_classes = ["phase_table_used", "duplicate_terms", "zero_coefficient", "number_on_left", "empty_sum", "op/", "op**"]


def _campaigns(tier):
    import os

    seed = int(os.environ.get("VERIF_SEED_EFFECTIVE", "1"))
    for corpus in ("empty", "seeded"):
        yield {"target": "pauli_arith", "runs": 150000, "corpus": corpus, "seed": seed, "max_len": 192}


def o_fuzz(spec):
    from vlib.fuzz import run_campaign

    return run_campaign(spec)


SUBCHECKS.append(SubCheck("atheris_pauli_arith", o_fuzz, enumerate=_campaigns, shards=(1, 2), tiers=("thorough",), timeout=(600, 3000),
                          rule="coverage-guided (Atheris/libFuzzer) campaigns, empty and seeded corpus: bytes -> arithmetic tree over Pauli terms / sums / numbers -> library result vs canonical-form algebra"))
