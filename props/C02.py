"""C02 - every built-in gate is a valid unitary that keeps its textbook identities."""
import math

import numpy as np
from hypothesis import strategies as st

from vlib import cgen, ref
from vlib.harness import SubCheck, must, require, HarnessError

PROPERTY_ID = "C02"
TECHNIQUE = 'exhaustive gate table x generated parameters (Hypothesis) against independent closed forms; algebraic laws (group law, fixed relations); metamorphic derivation histories'
RULE = (
    "All 27 built-in gates x Hypothesis-drawn parameter tuples (Python floats in [-4pi,4pi], "
    "multiples of pi/4, 0, +-1e-9, +-1e3, ints): matrix computable, shape, unitarity, "
    "self-adjoint flag, independent closed form; group law on drawn angle pairs for the ten "
    "one-parameter families; the eight fixed relations enumerated exhaustively. Non-trivial: a "
    "parametric gate at a non-special angle or a fixed-relation instance."
)
ASSUMPTIONS = [
    "parameters are Python numbers; 'all real parameters' is decided by dense sampling: every "
    "entry of U(t)^dagger U(t)-I and G(a)G(b)-G(a+b) is a trigonometric polynomial of degree "
    "<=2 in t/2, so agreement at hundreds of generic points is strong evidence, not a proof",
]

P = math.pi


def _check_table():
    import orquestra.quantum.circuits as C
    from orquestra.quantum.circuits import _builtin_gates as bg

    exported = {
        n for n in dir(bg)
        if n[0].isupper() and n not in ("GatePrototype", "GateRef", "Callable", "Union")
    }
    if exported != set(ref.GATES):
        raise HarnessError(f"gate table mismatch: {sorted(exported ^ set(ref.GATES))}")


_check_table()


def params_for():
    return st.one_of(
        st.floats(-4 * P, 4 * P, allow_nan=False),
        st.sampled_from([0.0, P / 4, P / 2, P, -P / 2, 2 * P, -P, 1e-9, -1e-9, 1e3, -1e3, 1.0]),
        st.integers(-6, 6),
    )


@st.composite
def gate_cases(draw, tier):
    nm = draw(st.sampled_from(cgen.NAMES))
    return {"g": nm, "p": [draw(params_for()) for _ in range(cgen.TABLE[nm][1])]}


def o_gate(spec):
    nm, ps = spec["g"], spec["p"]
    k = cgen.TABLE[nm][0]
    g = must(lambda: cgen.build_base(spec), "gate construction")
    M = must(lambda: ref.npm(g.matrix), f"{nm}.matrix")
    require(g.num_qubits == k, lambda: f"{nm}.num_qubits={g.num_qubits}, expected {k}")
    require(M.shape == (2 ** k, 2 ** k), lambda: f"{nm} matrix shape {M.shape}")
    require(ref.close(M.conj().T @ M, np.eye(2 ** k), 1e-9), lambda: f"{nm}{ps} not unitary")
    flagged = bool(getattr(g, "is_hermitian", False))
    if flagged:
        require(ref.close(M, M.conj().T, 1e-9), lambda: f"{nm}{ps} flagged self-adjoint but M != M^dagger")
        require(g.dagger is g or ref.close(ref.npm(g.dagger.matrix), M, 1e-9),
                lambda: f"{nm} flagged self-adjoint but dagger differs")
    else:
        dm = must(lambda: ref.npm(g.dagger.matrix), f"{nm}.dagger.matrix")
        require(ref.close(dm, M.conj().T, 1e-9), lambda: f"{nm}{ps}.dagger is not the adjoint")
    require(tuple(g.params) == tuple(ps), lambda: f"{nm} params {g.params} != {ps}")
    R = ref.closed(nm, ps)
    require(ref.close(M, R, 1e-8), lambda: f"{nm}{ps} differs from closed form, max|d|={ref.maxdiff(M, R):.3g}")
    # the matrix handed out belongs to the caller: using it as scratch space (the usual way of building a variant of a
    # gate) must not change what the gate - or any other gate - is from then on
    handed = g.matrix
    try:
        handed[0, 0] = 7
        handed[handed.shape[0] - 1, 0] = -3
        edited = True
    except Exception:  # noqa: BLE001 - an immutable matrix cannot be edited: nothing to check
        edited = False
    if edited:
        M2 = must(lambda: ref.npm(cgen.build_base(spec).matrix), f"{nm}.matrix (again)")
        require(ref.close(M2, R, 1e-8), lambda: f"{nm}{ps}: after the caller edited the matrix it was handed, the gate's matrix is no longer its own (max|d|={ref.maxdiff(M2, R):.3g})")
        M3 = must(lambda: ref.npm(g.matrix), f"{nm}.matrix (same object, again)")
        require(ref.close(M3, R, 1e-8), lambda: f"{nm}{ps}: after the caller edited the matrix it was handed, the same gate object reports another matrix (max|d|={ref.maxdiff(M3, R):.3g})")
        for other in ("I", "X", "CNOT", "Delay"):
            if other != nm:
                po = [0.5] * cgen.TABLE[other][1]
                Mo = must(lambda: ref.npm(cgen.build_base({"g": other, "p": po}).matrix), f"{other}.matrix")
                require(ref.close(Mo, ref.closed(other, po), 1e-8), lambda: f"after editing the matrix handed out for {nm}, {other} no longer has its own matrix")
    special = all(float(p) in (0.0,) or abs(float(p) / (P / 4) - round(float(p) / (P / 4))) < 1e-12 for p in ps)
    return {"classes": [nm], "nontrivial": bool(ps) and not special}


@st.composite
def group_cases(draw, tier):
    nm = draw(st.sampled_from(ref.ONE_PARAM_GROUPS))
    return {"g": nm, "a": draw(params_for()), "b": draw(params_for())}


def o_group(spec):
    nm, a, b = spec["g"], spec["a"], spec["b"]
    # all four matrices are requested first and looked at afterwards (they are used together, as in any product)
    held = [must(lambda: cgen.build_base({"g": nm, "p": [x]}).matrix, f"{nm}({x}).matrix") for x in (a, b, a + b, 0.0)]
    A, B, AB, Z = [ref.npm(m) for m in held]
    for x, M in zip((a, b, a + b, 0.0), (A, B, AB, Z)):
        require(ref.close(M, ref.closed(nm, [x]), 1e-8), lambda: f"{nm}({x}).matrix, read after other {nm} matrices were requested, differs from its closed form (max|d|={ref.maxdiff(M, ref.closed(nm, [x])):.3g})")
    d = A.shape[0]
    require(ref.close(Z, np.eye(d), 1e-10), lambda: f"{nm}(0) is not the identity")
    require(ref.close(B @ A, AB, 1e-8), lambda: f"{nm}({a}) then {nm}({b}) != {nm}({a + b}), max|d|={ref.maxdiff(B @ A, AB):.3g}")
    require(ref.close(A @ B, AB, 1e-8), lambda: f"{nm} family does not commute at ({a},{b})")
    return {"classes": [nm], "nontrivial": a != 0 and b != 0}


# ---------------------------------------------------------------- derived gates (history of one gate object)
# The statement holds for *every* built-in gate with given parameter values, however the gate
# object was obtained: from the prototype, by replace_params from another gate of the family, or
# by binding a symbolic instance - and whether or not a matrix was already read from the object
# it was derived from.


@st.composite
def derived_cases(draw, tier):
    nm = draw(st.sampled_from([n for n in cgen.NAMES if cgen.TABLE[n][1]]))
    k = cgen.TABLE[nm][1]
    steps = []
    for _ in range(draw(st.integers(2, 4))):
        steps.append({"p": [draw(params_for()) for _ in range(k)],
                      "how": draw(st.sampled_from(["replace", "replace", "bind", "bind", "fresh"])),
                      "forms": [draw(st.sampled_from(["t", "t", "2t", "t+s", "t/2", "-t"])) for _ in range(k)],
                      "read": draw(st.booleans()), "read_dagger": draw(st.booleans())})
    return {"g": nm, "steps": steps}


def o_derived(spec):
    import sympy

    nm = spec["g"]
    k = cgen.TABLE[nm][0]
    proto = cgen.build_base({"g": nm, "p": spec["steps"][0]["p"]})
    syms = [sympy.Symbol("t%d" % i) for i in range(len(spec["steps"][0]["p"]))]
    g = proto
    read_before = False
    cl = set()
    for i, stp in enumerate(spec["steps"]):
        ps = stp["p"]
        if i > 0:
            if stp["how"] == "replace":
                g = must(lambda: g.replace_params(tuple(ps)), "replace_params")
            elif stp["how"] == "bind":
                # the parameter written symbolically: a bare symbol or a small expression whose value is the wanted angle
                exprs, values = [], {}
                for j, (form, val) in enumerate(zip(stp.get("forms") or ["t"] * len(ps), ps)):
                    t_, s_ = syms[j], sympy.Symbol("s%d" % j)
                    if form == "2t":
                        exprs.append(2 * t_); values[t_] = val / 2
                    elif form == "t+s":
                        exprs.append(t_ + s_); values[t_] = val - 0.25; values[s_] = 0.25
                    elif form == "t/2":
                        exprs.append(t_ / 2); values[t_] = val * 2
                    elif form == "-t":
                        exprs.append(-t_); values[t_] = -val
                    else:
                        exprs.append(t_); values[t_] = val
                sg = must(lambda: g.replace_params(tuple(exprs)), "replace_params(symbolic expressions)")
                if stp["read"] or any(f != "t" for f in stp.get("forms") or []):
                    Ms = must(lambda: sg.matrix, f"{nm}.matrix with symbolic parameters {exprs}")
                    Msn = ref.npm(sympy.N(sympy.Matrix(Ms).xreplace({kk: sympy.Float(vv) for kk, vv in values.items()}), 20))
                    Rs = ref.closed(nm, [float(sympy.sympify(e).xreplace({kk: sympy.Float(vv) for kk, vv in values.items()})) for e in exprs])
                    require(ref.close(Msn, Rs, 1e-8), lambda: f"{nm} with symbolic parameters {exprs}: the matrix evaluated at {values} differs from the closed form, max|d|={ref.maxdiff(Msn, Rs):.3g}")
                    cl.add("symbolic_expression_parameter")
                g = must(lambda: sg.bind(values), "bind")
                ps = [float(x) for x in g.params]
            else:
                g = cgen.build_base({"g": nm, "p": ps})
            if read_before and stp["how"] != "fresh":
                cl.add("derived_after_matrix_read")
        require(all(abs(float(x) - float(y)) <= 1e-12 * max(1.0, abs(float(y))) for x, y in zip(g.params, stp["p"])) and len(g.params) == len(ps), lambda: f"{nm}: params {g.params} after step {i}, expected {stp['p']}")
        M = must(lambda: ref.npm(g.matrix), f"{nm}.matrix")
        R = ref.closed(nm, ps)
        require(M.shape == (2 ** k, 2 ** k), lambda: f"{nm} matrix shape {M.shape}")
        require(ref.close(M, R, 1e-8), lambda: f"{nm}{ps} obtained by '{stp['how']}' at step {i} differs from its closed form, max|d|={ref.maxdiff(M, R):.3g}")
        require(ref.close(M.conj().T @ M, np.eye(2 ** k), 1e-9), lambda: f"{nm}{ps} (step {i}) not unitary")
        read_before = True
        if stp["read_dagger"]:
            D = must(lambda: ref.npm(g.dagger.matrix), "dagger.matrix")
            require(ref.close(D, R.conj().T, 1e-8), lambda: f"{nm}{ps}.dagger (step {i}) is not the adjoint")
    return {"classes": cl | {nm}, "nontrivial": "derived_after_matrix_read" in cl}


# ---------------------------------------------------------------- built-in gates next to user gates of the same name
# "every built-in gate ... matrix ... keeps its textbook identities" must not depend on what else was evaluated in the
# process: a user-defined MatrixFactoryGate / custom gate may carry the name (and parameter values) of a built-in one.


@st.composite
def alike_cases(draw, tier):
    nm = draw(st.sampled_from(cgen.NAMES))
    return {"g": nm, "p": [draw(params_for()) for _ in range(cgen.TABLE[nm][1])], "mseed": draw(st.integers(0, 10 ** 6)),
            "kind": draw(st.sampled_from(["factory", "factory_hermitian", "definition"])), "first": draw(st.sampled_from(["alike", "alike", "builtin"]))}


def o_alike(spec):
    import sympy
    from orquestra.quantum.circuits import CustomGateDefinition, MatrixFactoryGate

    nm, ps = spec["g"], spec["p"]
    k, npar = cgen.TABLE[nm]
    U = cgen.random_unitary(k, spec["mseed"])
    if spec["kind"] == "factory_hermitian":
        U = U @ np.diag([1.0] + [-1.0] * (2 ** k - 1)) @ U.conj().T  # a reflection: Hermitian and unitary
    Um = sympy.Matrix(U.tolist())

    def alike():
        if spec["kind"] == "definition":
            syms = tuple(sympy.Symbol("u%d" % i) for i in range(npar))
            return CustomGateDefinition(nm, Um, syms)(*ps)
        return MatrixFactoryGate(nm, lambda *a: Um, tuple(ps), k, is_hermitian=spec["kind"] == "factory_hermitian")

    def check_builtin(when):
        g = cgen.build_base({"g": nm, "p": ps})
        M = must(lambda: ref.npm(g.matrix), f"{nm}.matrix")
        R = ref.closed(nm, ps)
        require(M.shape == R.shape and ref.close(M, R, 1e-8), lambda: f"built-in {nm}{ps} {when} differs from its closed form, max|d|={ref.maxdiff(M, R) if M.shape == R.shape else 'shape'}")
        flagged = bool(getattr(g, "is_hermitian", False))
        D = must(lambda: ref.npm(g.dagger.matrix), f"{nm}.dagger.matrix")
        require(ref.close(D, R.conj().T, 1e-8), lambda: f"built-in {nm}{ps}.dagger {when} is not the adjoint")
        require((not flagged) or ref.close(R, R.conj().T, 1e-9), f"{nm} flagged self-adjoint but is not")

    def check_alike(when):
        a = alike()
        M = must(lambda: ref.npm(a.matrix), "user gate matrix")
        require(ref.close(M, U, 1e-9), lambda: f"user-defined gate named {nm} {when} does not report its own matrix")

    if spec["first"] == "builtin":
        check_builtin("(fresh)")
    check_alike("(first)")
    check_builtin("after a user-defined gate of the same name and parameters was evaluated")
    check_alike("after the built-in gate was evaluated")
    return {"classes": [nm, "kind:" + spec["kind"]], "nontrivial": True}


RELATIONS = ["S2=Z", "T2=S", "SX2=X", "HZH=X", "CNOT=cX", "CZ=cZ", "SWAP", "Delay=I",
             "CNOT=diag(I,X)", "CZ=diag(I,Z)", "I=identity"]


def o_relation(spec):
    import orquestra.quantum.circuits as C

    m = lambda g: must(lambda: ref.npm(g.matrix), "matrix")
    r = spec["rel"]
    ok = True
    if r == "S2=Z":
        ok = ref.close(m(C.S) @ m(C.S), m(C.Z), 1e-12)
    elif r == "T2=S":
        ok = ref.close(m(C.T) @ m(C.T), m(C.S), 1e-12)
    elif r == "SX2=X":
        ok = ref.close(m(C.SX) @ m(C.SX), m(C.X), 1e-12)
    elif r == "HZH=X":
        ok = ref.close(m(C.H) @ m(C.Z) @ m(C.H), m(C.X), 1e-12)
    elif r == "CNOT=cX":
        ok = ref.close(m(C.CNOT), m(C.X.controlled(1)), 1e-12)
    elif r == "CZ=cZ":
        ok = ref.close(m(C.CZ), m(C.Z.controlled(1)), 1e-12)
    elif r == "CNOT=diag(I,X)":
        ok = ref.close(m(C.CNOT), ref.controlled(ref.PX, 1), 1e-12)
    elif r == "CZ=diag(I,Z)":
        ok = ref.close(m(C.CZ), ref.controlled(ref.PZ, 1), 1e-12)
    elif r == "SWAP":
        S = m(C.SWAP)
        for a in range(2):
            for b in range(2):
                v = np.zeros(4); v[2 * a + b] = 1
                w = np.zeros(4); w[2 * b + a] = 1
                ok = ok and ref.close(S @ v, w, 1e-12)
    elif r == "Delay=I":
        ok = all(ref.close(m(C.Delay(t)), np.eye(2), 1e-12) for t in (0, 1, 0.5, -3.2, 1e3))
    elif r == "I=identity":
        ok = ref.close(m(C.I), np.eye(2), 1e-12)
    require(ok, f"fixed relation {r} fails")
    return {"classes": [r]}


SUBCHECKS = [
    SubCheck("gate_matrix", o_gate, strategy=gate_cases, examples=(700, 4000), shards=(4, 16),
             rule="gate x params: computable, shape, unitary, flag, closed form; non-trivial = parametric at a non-special angle"),
    SubCheck("group_law", o_group, strategy=group_cases, examples=(300, 2000), shards=(2, 8),
             rule="G(a)G(b)=G(a+b), G(0)=I for 10 families; non-trivial = both angles non-zero"),
    SubCheck("fixed_relations", o_relation, enumerate=lambda t: [{"rel": r} for r in RELATIONS],
             exhaustive=True, rule="all fixed relations, exhaustive"),
]
SUBCHECKS.append(SubCheck("derived_gates", o_derived, strategy=derived_cases, examples=(400, 2500), shards=(2, 8),
                          rule="one gate family, 2-4 parameter tuples reached by replace_params / bind of a symbolic instance / a fresh call, matrices read in between: every gate object has the matrix of its own parameters; non-trivial = a gate derived from one whose matrix had been read"))
SUBCHECKS.append(SubCheck("name_alikes", o_alike, strategy=alike_cases, examples=(300, 2000), shards=(2, 8),
                          rule="a built-in gate evaluated before / after a user-defined MatrixFactoryGate or custom gate carrying the same name and parameter values: both keep their own matrices"))
SUBCHECKS[0].expected_classes = list(cgen.NAMES)
