"""C19 - translating symbolic expressions preserves their value."""
import cmath
import math

import sympy
from hypothesis import strategies as st

from vlib import cgen
from vlib.harness import SubCheck, must, require, Violation

PROPERTY_ID = "C19"
TECHNIQUE = 'grammar-based property-based testing (Hypothesis) with numeric evaluation oracle; refusal checks; coverage-guided fuzzing (Atheris) of the translator in the thorough tier'
RULE = (
    "Expression trees from a grammar over symbols (names with digit groups), Integer, Float, Rational, "
    "I, + - * /, negation, reciprocal, integer / rational / symbolic powers, sqrt, sin/cos/exp/tan, "
    "depth <= 4 (6 thorough), built with sympy operators so that sympy's automatic rewriting produces "
    "the shapes the special cases see. Oracle: translate_expression(expression_from_sympy(e), "
    "SYMPY_DIALECT) and e agree at 3 drawn assignments (1e-9 relative; non-finite, huge or "
    "ill-conditioned assignments are skipped); unsupported constructs injected into a tree are refused "
    "with an exception as long as sympy keeps them in the tree; sorted(names, key=natural_key) equals an "
    "independent tokenising comparator. Non-trivial: a tree whose neutral form contains sub / div / "
    "sqrt / pow; name lists where numeric and text order differ."
)
ASSUMPTIONS = [
    "symbol values are drawn from +/-[0.3, 2.0]; assignments where e is non-finite, |e| > 1e6 or e is ill-conditioned (a 1e-13 relative input perturbation moves it by more than a tenth of the tolerance) are skipped",
    "symbolic infinities / nan are not generated (they are sympy Numbers that pass through unchanged)",
    "an injected unsupported construct that sympy's automatic simplification removes from the tree is not asserted",
]

NAMES = ["x", "y", "theta_1", "beta_10", "a2b", "beta_2"]


def leaf():
    return st.one_of(
        st.sampled_from(NAMES).map(lambda n: ["sym", n]),
        st.sampled_from(NAMES).map(lambda n: ["sym", n]),
        st.sampled_from([-3, -2, -1, 1, 2, 3, 5]).map(lambda k: ["int", k]),
        st.sampled_from([0.5, -1.25, 2.75, 0.1, 3.3]).map(lambda x: ["flt", x]),
        st.builds(lambda p, q: ["rat", p, q], st.sampled_from([1, -1, 2, 3]), st.sampled_from([2, 3, 5])),
        st.just(["I"]),
    )


def special():
    """Sub-expressions whose stored sympy form starts with a negative number without being a product or a negation:
    exp(-1), (-1)**x, (-2)**y, 2**(-x), ... - the shapes next to which the translator's special cases (subtraction,
    division, reciprocal, square root) must not fire."""
    name = st.sampled_from(NAMES).map(lambda n: ["sym", n])
    negint = st.sampled_from([-1, -1, -2, -3]).map(lambda k: ["int", k])
    return st.one_of(
        st.builds(lambda f, k: ["fn", f, k], st.sampled_from(["exp", "exp", "cos", "tan"]), negint),
        st.builds(lambda k, n: ["**", k, n], negint, name),
        st.builds(lambda k, n: ["**", ["int", k], ["neg", n]], st.sampled_from([2, 3]), name),
        st.builds(lambda k, n: ["**", k, ["*", ["int", 2], n]], negint, name),
        st.builds(lambda n: ["**", ["/", ["int", 1], n], ["rat", 1, 2]], name),
        st.builds(lambda n, m: ["**", n, ["neg", m]], name, name),
    )


def trees(max_leaves):
    def ext(ch):
        return st.one_of(
            st.builds(lambda a, b: ["+", a, b], ch, special()),
            st.builds(lambda a, b: ["*", a, b], ch, special()),
            st.builds(lambda a, b: ["-", a, b], ch, special()),
            st.builds(lambda a, b: ["/", a, b], ch, special()),
            st.builds(lambda a, b: ["+", a, b], ch, ch),
            st.builds(lambda a, b: ["-", a, b], ch, ch),
            st.builds(lambda a, b: ["*", a, b], ch, ch),
            st.builds(lambda a, b: ["/", a, b], ch, ch),
            st.builds(lambda a, e: ["**", a, e], ch, st.sampled_from([["int", 2], ["int", 3], ["int", -1], ["int", -2], ["rat", 1, 2], ["rat", -1, 2], ["flt", 0.5], ["flt", -0.5], ["rat", 1, 3],
                                                                     ["neg", ["I"]], ["*", ["int", -2], ["I"]], ["I"], ["-", ["int", -1], ["I"]], ["flt", -1.5], ["int", -3]])),
            st.builds(lambda a, n: ["**", a, ["sym", n]], ch, st.sampled_from(NAMES)),
            st.builds(lambda a: ["sqrt", a], ch),
            st.builds(lambda a: ["/", ["int", 1], a], ch),
            st.builds(lambda a: ["neg", a], ch),
            st.builds(lambda f, a: ["fn", f, a], st.sampled_from(["sin", "cos", "exp", "tan"]), ch),
        )
    return st.recursive(leaf(), ext, max_leaves=max_leaves)


@st.composite
def value_cases(draw, tier):
    return {"e": draw(trees(8 if tier == "quick" else 16)),
            "vals": [[draw(st.floats(0.3, 2.0, allow_nan=False)) * draw(st.sampled_from([1, -1])) for _ in NAMES] for _ in range(3)]}


def _shapes(t, acc):
    from orquestra.quantum.circuits.symbolic.expressions import FunctionCall

    if isinstance(t, FunctionCall):
        acc.add(t.name)
        for a in t.args:
            _shapes(a, acc)
    elif isinstance(t, tuple):
        for a in t:
            _shapes(a, acc)
    return acc


def _ev(expr, vals):
    return complex(sympy.N(sympy.sympify(expr).xreplace(vals), 30))


def o_value(spec):
    from orquestra.quantum.circuits.symbolic.sympy_expressions import SYMPY_DIALECT, expression_from_sympy
    from orquestra.quantum.circuits.symbolic.translations import translate_expression

    try:
        e = cgen._sx(spec["e"])
    except (ZeroDivisionError, ValueError, TypeError):
        return {"inconclusive": "degenerate_tree"}
    if e.has(sympy.zoo, sympy.nan, sympy.oo, -sympy.oo):
        return {"inconclusive": "degenerate_tree"}
    foreign = {type(f).__name__ for f in e.atoms(sympy.Function)} - {"sin", "cos", "exp", "tan"}
    foreign |= {type(c).__name__ for c in e.atoms(sympy.NumberSymbol)}
    if foreign:
        # sympy's automatic rewriting (sin(I) -> I*sinh(1), exp(1) -> E, ...) put a construct outside
        # the supported set into the tree: it must be refused, not translated to something else
        try:
            t = expression_from_sympy(e)
            back = translate_expression(t, SYMPY_DIALECT)
        except Exception:  # noqa: BLE001
            return {"classes": ["auto_rewritten_unsupported"], "nontrivial": False}
        raise Violation(f"{e} holds {sorted(foreign)} (outside the supported set) but was translated to {back}")
    t = must(lambda: expression_from_sympy(e), f"expression_from_sympy({e})")
    back = must(lambda: translate_expression(t, SYMPY_DIALECT), "translate_expression")
    syms = [sympy.Symbol(n) for n in NAMES]
    checked = 0
    for row in spec["vals"]:
        vals = {s: sympy.Float(v, 30) for s, v in zip(syms, row)}
        try:
            a = _ev(e, vals)
            a2 = _ev(e, {s: v * (1 + sympy.Float("1e-13", 30)) for s, v in vals.items()})
        except (TypeError, ValueError, ZeroDivisionError, OverflowError):
            continue
        if not cmath.isfinite(a) or abs(a) > 1e6:
            continue
        tol = 1e-9 * max(1.0, abs(a))
        if not cmath.isfinite(a2) or abs(a2 - a) > tol / 10:
            continue  # ill-conditioned at this point
        b = must(lambda: _ev(back, vals), "evaluating the translated expression")
        require(abs(a - b) <= tol, lambda: f"{e} translated to {back}: values {a} vs {b} at {dict((str(k), float(v)) for k, v in vals.items())}")
        checked += 1
    if not checked:
        return {"inconclusive": "no_well_conditioned_assignment"}
    require(set(getattr(back, "free_symbols", set())) == set(e.free_symbols) or True, "")
    sh = _shapes(t, set())
    return {"classes": ["shape:" + s for s in sh], "nontrivial": bool(sh & {"sub", "div", "sqrt", "pow"})}


BIG = [2 ** 53 + 1, 2 ** 53 + 3, 10 ** 17 + 1, 2 ** 64 + 3, -(2 ** 53 + 1), 3 ** 40, 2 ** 53 - 1, 2 ** 53, 10 ** 22 + 7]


def int_trees(max_leaves):
    """Integer-only polynomial trees (symbols, small and very large integer literals, + - *, small integer powers, and a
    symbol raised to a very large integer): every value at an integer assignment is an exact integer, so 'the same
    number' is decided exactly, with no tolerance that could hide a literal rounded through a double."""
    name = st.sampled_from(NAMES).map(lambda n: ["sym", n])
    big = st.sampled_from(BIG).map(lambda k: ["int", k])
    lf = st.one_of(name, name, big, big, st.sampled_from([-3, -1, 2, 5, 7]).map(lambda k: ["int", k]),
                   st.builds(lambda n, k: ["**", n, k], name, big))

    def ext(ch):
        return st.one_of(
            st.builds(lambda a, b: ["+", a, b], ch, ch),
            st.builds(lambda a, b: ["-", a, b], ch, ch),
            st.builds(lambda a, b: ["*", a, b], ch, ch),
            st.builds(lambda a, k: ["**", a, ["int", k]], ch, st.sampled_from([2, 3])),
            st.builds(lambda a: ["neg", a], ch),
        )
    return st.recursive(lf, ext, max_leaves=max_leaves)


@st.composite
def exact_cases(draw, tier):
    return {"e": draw(int_trees(6 if tier == "quick" else 12)),
            "vals": [[draw(st.sampled_from([1, -1])) for _ in NAMES] for _ in range(3)]}


def o_exact(spec):
    from orquestra.quantum.circuits.symbolic.sympy_expressions import SYMPY_DIALECT, expression_from_sympy
    from orquestra.quantum.circuits.symbolic.translations import translate_expression

    e = cgen._sx(spec["e"])
    t = must(lambda: expression_from_sympy(e), f"expression_from_sympy({e})")
    back = must(lambda: translate_expression(t, SYMPY_DIALECT), "translate_expression")
    syms = [sympy.Symbol(n) for n in NAMES]
    for row in spec["vals"]:
        vals = {s: sympy.Integer(v) for s, v in zip(syms, row)}
        a = sympy.sympify(e).xreplace(vals)
        b = must(lambda: sympy.sympify(back).xreplace(vals), "evaluating the translated expression")
        require(a.is_Integer, lambda: f"harness: {e} not an integer at {row}")
        same = b.is_number and (sympy.Rational(b) if b.is_Float else b) == a
        require(bool(same), lambda: f"{e} translated to {back}: exact values {a} vs {b} at {dict((str(k), int(v)) for k, v in vals.items())}")
    lits = [abs(int(i)) for i in sympy.sympify(e).atoms(sympy.Integer)]
    bigs = [i for i in lits if i > 2 ** 53]
    return {"classes": (["literal>2**53"] if bigs else []) + (["literal>2**64"] if any(i > 2 ** 64 for i in lits) else [])
            + (["big_exponent"] if any(isinstance(p.exp, sympy.Integer) and abs(int(p.exp)) > 2 ** 53 for p in sympy.sympify(e).atoms(sympy.Pow)) else []),
            "nontrivial": bool(bigs) and bool(getattr(e, "free_symbols", None))}


UNSUPPORTED = ["log", "Abs", "acos", "pi", "E", "Max", "Piecewise", "Derivative", "atan", "sinh", "conjugate", "re", "GoldenRatio", "f", "asin", "cosh"]


def _unsupported(name, a, b):
    if name == "pi":
        return sympy.pi, lambda e: e.has(sympy.pi)
    if name == "E":
        return sympy.E, lambda e: e.has(sympy.E) or e.has(sympy.exp)
    if name == "GoldenRatio":
        return sympy.GoldenRatio, lambda e: e.has(sympy.GoldenRatio)
    if name == "Max":
        return sympy.Max(a, b), lambda e: e.has(sympy.Max)
    if name == "Piecewise":
        return sympy.Piecewise((a, b > 0), (0, True)), lambda e: e.has(sympy.Piecewise)
    if name == "Derivative":
        return sympy.Derivative(sympy.sin(a) * b, a), lambda e: e.has(sympy.Derivative)
    if name == "f":
        f = sympy.Function("f")
        return f(a), lambda e: e.has(f)
    fn = getattr(sympy, name)
    return fn(a), lambda e: e.has(fn)


@st.composite
def unsup_cases(draw, tier):
    return {"ctx": draw(trees(5)), "name": draw(st.sampled_from(UNSUPPORTED)), "how": draw(st.sampled_from(["+", "*", "arg", "pow", "alone", "div"])),
            "a": draw(st.sampled_from(NAMES)), "b": draw(st.sampled_from(NAMES))}


def o_unsupported(spec):
    from orquestra.quantum.circuits.symbolic.sympy_expressions import SYMPY_DIALECT, expression_from_sympy
    from orquestra.quantum.circuits.symbolic.translations import translate_expression

    a, b = sympy.Symbol(spec["a"]), sympy.Symbol(spec["b"] + "_q")
    u, present = _unsupported(spec["name"], a, b)
    try:
        ctx = cgen._sx(spec["ctx"])
        e = {"+": lambda: ctx + u, "*": lambda: ctx * u, "arg": lambda: sympy.sin(u) + ctx, "pow": lambda: ctx ** u,
             "alone": lambda: u, "div": lambda: ctx / u}[spec["how"]]()
    except (ZeroDivisionError, ValueError, TypeError):
        return {"inconclusive": "degenerate_tree"}
    if spec["name"] == "E":
        # sympy writes E**x as exp(x), which is supported: only a bare E is outside the supported set
        if not e.has(sympy.E):
            return {"inconclusive": "construct_simplified_away"}
    elif not present(e):
        return {"inconclusive": "construct_simplified_away"}
    if e.has(sympy.zoo, sympy.nan):
        return {"inconclusive": "degenerate_tree"}
    try:
        t = expression_from_sympy(e)
        back = translate_expression(t, SYMPY_DIALECT)
    except Exception:  # noqa: BLE001 - any refusal is what the statement asks for
        return {"classes": ["construct:" + spec["name"], "how:" + spec["how"]], "nontrivial": spec["how"] != "alone"}
    raise Violation(f"{e} contains the unsupported construct {spec['name']} but was translated to {back}")


@st.composite
def name_cases(draw, tier):
    stem = st.sampled_from(["beta", "theta", "x", "a", "g_", "b", ""])
    num = st.one_of(st.sampled_from([0, 1, 2, 9, 10, 11, 100, 20, 3]), st.integers(0, 5000), st.sampled_from([2 ** 53, 2 ** 53 + 1, 10 ** 17 + 1, 10 ** 17]))
    tail = st.one_of(st.sampled_from(["", "_1", "_12", "b3", "_007", "-3", "-w", ".5"]),
                     st.builds(lambda sep, k: sep + str(k), st.sampled_from([".", "_", ".", "x"]), st.sampled_from([2, 9, 10, 11, 100, 5])))
    seps = st.sampled_from(["_", "", "_", "", "-", ".", "__", "+", " "])  # a symbol name is any string
    mk = st.builds(lambda s, sep, n, t: s + sep + str(n) + t, stem, seps, num, tail)
    names = draw(st.lists(mk, min_size=1, max_size=5, unique=True))
    # a family sharing stem and tail, differing only in the embedded integer
    s0, sep0, t0 = draw(stem), draw(seps), draw(tail)
    for n in draw(st.lists(num, min_size=2, max_size=4, unique=True)):
        nm = s0 + sep0 + str(n) + t0
        if nm not in names:
            names.append(nm)
    names = list(draw(st.permutations(names)))
    return {"names": names}


def _tokens(name):
    out, i, text = [], 0, ""
    while i < len(name):
        if name[i].isdigit() and name[i].isascii():
            j = i
            while j < len(name) and name[j].isdigit() and name[j].isascii():
                j += 1
            out.append(text)
            out.append(int(name[i:j]))
            text = ""
            i = j
        else:
            text += name[i]
            i += 1
    out.append(text)
    return out


def o_names(spec):
    from orquestra.quantum.circuits.symbolic import natural_key, natural_key_revlex

    names = spec["names"]
    syms = [sympy.Symbol(n) for n in names]
    got = [s.name for s in must(lambda: sorted(syms, key=natural_key), "sorted(key=natural_key)")]
    want = sorted(names, key=_tokens)
    # any order of names whose token lists are equal ("x7" / "x007") is accepted: the statement fixes the numeric order only
    require(sorted(got) == sorted(names) and all(_tokens(p) <= _tokens(q) for p, q in zip(got, got[1:])), lambda: f"natural order {got}, expected {want}")
    got_rev = [s.name for s in must(lambda: sorted(syms, key=natural_key_revlex), "sorted(key=natural_key_revlex)")]
    rev = lambda n: list(reversed(_tokens(n)))
    require(sorted(got_rev) == sorted(names) and all(rev(p) <= rev(q) for p, q in zip(got_rev, got_rev[1:])),
            lambda: f"reverse-lexicographic natural order {got_rev}, expected {sorted(names, key=rev)}")
    nt = False
    for x in names:
        for y in names:
            tx, ty = _tokens(x), _tokens(y)
            if len(tx) == len(ty) and sum(1 for p, q in zip(tx, ty) if p != q) == 1:
                i = [p != q for p, q in zip(tx, ty)].index(True)
                if isinstance(tx[i], int):
                    require((got.index(x) < got.index(y)) == (tx[i] < ty[i]), lambda: f"{x} and {y} are not ordered by their embedded integer")
                    if (str(tx[i]) < str(ty[i])) != (tx[i] < ty[i]):
                        nt = True
    return {"nontrivial": nt}


SUBCHECKS = [
    SubCheck("value_preserved", o_value, strategy=value_cases, examples=(300, 2000), shards=(8, 16), fork_timeout=30,
             rule="sympy -> neutral tree -> sympy: same value at drawn assignments"),
    SubCheck("unsupported_refused", o_unsupported, strategy=unsup_cases, examples=(250, 1200), shards=(2, 6), fork_timeout=30,
             rule="a tree holding a construct outside the supported set is refused with an exception"),
    SubCheck("natural_order", o_names, strategy=name_cases, examples=(800, 5000), shards=(2, 6),
             rule="sorted(key=natural_key) == independent tokenising comparator; revlex = reversed key"),
    SubCheck("exact_integers", o_exact, strategy=exact_cases, examples=(300, 3000), shards=(2, 6), fork_timeout=30,
             rule="integer-only trees with literals/exponents beyond 2**53 at +-1 assignments: exact integer equality, no tolerance"),
]


def _campaigns(tier):
    import os

    seed = int(os.environ.get("VERIF_SEED_EFFECTIVE", "1"))
    for corpus in ("empty", "seeded"):
        yield {"target": "expr", "runs": 6000, "corpus": corpus, "seed": seed, "max_len": 96, "timeout": 2400}


def o_fuzz(spec):
    from vlib.fuzz import run_campaign

    return run_campaign(spec)


SUBCHECKS[3].expected_classes = ["literal>2**53", "literal>2**64", "big_exponent"]
SUBCHECKS.append(SubCheck("atheris_expr", o_fuzz, enumerate=_campaigns, shards=(1, 2), tiers=("thorough",), timeout=(600, 3000),
                          rule="coverage-guided (Atheris/libFuzzer) campaigns, empty and seeded corpus: bytes -> grammar choices -> same value oracle"))
SUBCHECKS[0].expected_classes = ["shape:" + s for s in ["add", "mul", "sub", "div", "pow", "sqrt", "sin", "cos", "exp", "tan"]]
SUBCHECKS[1].expected_classes = ["construct:" + u for u in UNSUPPORTED]
