"""C13 - splitting, batching and recombining shots never loses or invents a shot."""
import collections
import copy

import numpy as np
from hypothesis import strategies as st

from vlib.harness import SubCheck, must, must_raise, require

PROPERTY_ID = "C13"
TECHNIQUE = 'property-based testing (Hypothesis) of conservation laws (validity predicates over the outputs) with boundary-weighted generators'
RULE = (
    "Lists of 0..8 opaque circuits with sample counts 1..10^6 (at most 300 copies per circuit; boundaries k*max, k*max+-1 "
    "over-weighted) and maxima 1..10^4, one case in eight with counts and maxima of 2^40..2^76 (beyond exact double range, <= 40 copies); synthetic per-copy count dictionaries / bitstring lists; batch "
    "sizes 1..5; distributions with 1..8 outcomes (zero-probability outcomes included) and shot "
    "numbers 1..200 with a drawn numpy seed; positive weight lists of mixed magnitude with totals "
    "0..10^4. Oracle: conservation laws computed in pure Python (per-circuit sums, order, bounds, "
    "support, integer total, |r_i - share_i| <= 1). Non-trivial: a count > max that is not a multiple "
    "of max; a shot number N with some p*N non-integer; >= 2 weights with non-integer shares."
)
ASSUMPTIONS = [
    "weights are positive finite floats/ints (sum > 0); sample counts and maxima are positive ints",
    "np.random is seeded per case (the library samples the top-up shots from the global numpy RNG)",
]


@st.composite
def expand_cases(draw, tier):
    huge = draw(st.integers(0, 7)) == 0
    if huge:
        # counts and maxima beyond the range in which doubles represent integers exactly (2**53); still only a few copies per circuit
        mx = draw(st.one_of(st.sampled_from([2 ** 52, 2 ** 53, 2 ** 53 + 1, 10 ** 16, 10 ** 18 + 9, 2 ** 64]), st.integers(2 ** 40, 2 ** 70)))
    else:
        mx = draw(st.one_of(st.sampled_from([1, 2, 3, 7, 10, 100, 1000, 8192]), st.integers(1, 10 ** 4)))
    k = draw(st.integers(0, 8))
    ns = []
    for _ in range(k):
        m = draw(st.integers(0, 5))
        if huge:
            m = draw(st.integers(0, 40))
            ns.append(max(1, draw(st.one_of(st.sampled_from([mx, mx + 1, mx - 1, m * mx, m * mx + 1, m * mx - 1, 2 ** 53 + 1]),
                                            st.integers(1, 40 * mx)))))
            continue
        ns.append(max(1, draw(st.one_of(st.sampled_from([1, mx, mx + 1, mx - 1, m * mx, m * mx + 1, m * mx - 1]),
                                        st.integers(1, 5 * mx), st.integers(1, min(10 ** 6, 300 * mx))))))
    return {"mx": mx, "ns": ns, "bsz": draw(st.integers(1, 5)), "wrong": draw(st.integers(-2, 2)),
            "bits": draw(st.integers(1, 3)),
            "container": draw(st.sampled_from(["dict", "dict", "counter", "ordered", "shared"])), "twice": draw(st.booleans())}


def o_expand(spec):
    from orquestra.quantum.circuits import (combine_bitstrings, combine_measurement_counts,
                                            expand_sample_sizes, split_into_batches)

    mx, ns = spec["mx"], spec["ns"]
    k = len(ns)
    circs = ["c%d" % i for i in range(k)]
    nc, nn, mult = must(lambda: expand_sample_sizes(list(circs), list(ns), mx), "expand_sample_sizes")
    nc, nn, mult = list(nc), list(nn), list(mult)
    require(len(mult) == k and len(nc) == len(nn) == sum(mult), lambda: f"lengths: {len(nc)} circuits, {len(nn)} sizes, multiplicities {mult}")
    pos = 0
    for c, n_, mu in zip(circs, ns, mult):
        seg, segc = nn[pos:pos + mu], nc[pos:pos + mu]
        pos += mu
        require(mu >= 1 and all(x == c for x in segc), lambda: f"copies of {c} are {segc}")
        require(all(isinstance(s, int) and 1 <= s <= mx for s in seg), lambda: f"copy sizes {seg} outside 1..{mx}")
        require(sum(seg) == n_, lambda: f"copies of {c} sum to {sum(seg)}, requested {n_}")
    # recombination
    nb = spec["bits"]
    keys = [format(i, "0%db" % nb) for i in range(2 ** nb)]
    res = []
    for j, s in enumerate(nn):
        d = collections.Counter()
        for t in range(min(s, 4)):
            d[keys[(j + t) % len(keys)]] += s // min(s, 4) + (1 if t < s % min(s, 4) else 0)
        res.append(dict(d))
    # per-copy results may be any mapping a runner hands back (dict, Counter, OrderedDict), and a memoising runner
    # hands back the very same object for identical copies
    kind = spec.get("container", "dict")
    if kind in ("counter", "shared"):
        res = [collections.Counter(d) for d in res]
    elif kind == "ordered":
        res = [collections.OrderedDict(sorted(d.items(), reverse=True)) for d in res]
    if kind == "shared":
        seen = {}
        res = [seen.setdefault(tuple(sorted(d.items())), d) for d in res]
    res_snapshot = copy.deepcopy([dict(d) for d in res])
    comb = must(lambda: combine_measurement_counts(res, mult), "combine_measurement_counts")
    require([sum(c.values()) for c in comb] == list(ns), lambda: f"combined totals {[sum(c.values()) for c in comb]} != requested {ns} ({kind} results)")
    require([dict(d) for d in res] == res_snapshot, f"combine_measurement_counts modified its input ({kind} results)")
    if spec.get("twice"):
        again = must(lambda: combine_measurement_counts(res, mult), "combine_measurement_counts (second time)")
        require([dict(c) for c in again] == [dict(c) for c in comb], "combining the same results a second time gives different totals")
    pos = 0
    for mu, c in zip(mult, comb):
        want = collections.Counter()
        for d in res_snapshot[pos:pos + mu]:
            want.update(d)
        pos += mu
        require(dict(want) == dict(c), "combined counts are not the sums of the per-copy counts")
    small = all(s <= 2000 for s in nn)
    if small:
        bs = [[keys[(j + t) % len(keys)] for t in range(s)] for j, s in enumerate(nn)]
        cb = must(lambda: combine_bitstrings(bs, mult), "combine_bitstrings")
        pos = 0
        for mu, got in zip(mult, cb):
            want = [b for lst in bs[pos:pos + mu] for b in lst]
            pos += mu
            require(list(got) == want, "combined bitstrings are not the concatenation of the copies")
    if spec["wrong"] != 0 and (len(res) + spec["wrong"]) >= 0:
        bad = (res + [{"0" * nb: 1}] * 2)[: len(res) + spec["wrong"]]
        if len(bad) != sum(mult):
            must_raise(Exception, lambda: combine_measurement_counts(bad, mult), "combine with a wrong number of results")
            must_raise(Exception, lambda: combine_bitstrings([["0"]] * len(bad), mult), "combine_bitstrings with a wrong number of lists")
    # batches
    bsz = spec["bsz"]
    batches = [(list(b), s) for b, s in must(lambda: list(split_into_batches(list(circs), list(ns), bsz)), "split_into_batches")]
    flat = [c for b, _ in batches for c in b]
    require(flat == circs, lambda: f"batches cover {flat}, expected {circs} exactly once in order")
    require(all(1 <= len(b) <= bsz for b, _ in batches), lambda: f"a batch is empty or larger than {bsz}")
    p = 0
    for b, s in batches:
        require(all(s >= ns[p + i] for i in range(len(b))), lambda: f"batch requests {s} samples, members asked for {ns[p:p + len(b)]}")
        p += len(b)
    must_raise(Exception, lambda: list(split_into_batches(list(circs), list(ns) + [1], bsz)), "split_into_batches with mismatched lengths")
    must_raise(Exception, lambda: list(split_into_batches(list(circs), list(ns), 0)), "split_into_batches with max_batch_size 0")
    nt = any(n > mx and n % mx != 0 for n in ns)
    cl = []
    if any(n % mx == 0 and n > mx for n in ns):
        cl.append("exact_multiple")
    if nt:
        cl.append("remainder")
    if any(n < mx for n in ns):
        cl.append("below_max")
    if k == 0:
        cl.append("empty")
    cl.append("results:" + kind)
    if k > bsz and k % bsz:
        cl.append("ragged_last_batch")
    if any(n > 2 ** 53 for n in ns):
        cl.append("count_above_2^53")
    return {"classes": cl, "nontrivial": nt}


@st.composite
def repr_cases(draw, tier):
    mode = draw(st.sampled_from(["random", "random", "overshoot", "undershoot"]))
    n = draw(st.integers(1, 3)) if mode == "random" else draw(st.integers(2, 4))
    dits = mode == "random" and draw(st.integers(0, 3)) == 0
    if dits:
        # outcomes of multi-level subsystems (values up to two digits); tuple keys only, a digit string cannot express them
        keys = draw(st.lists(st.tuples(*[st.sampled_from([0, 1, 2, 3, 10, 12, 21])] * n), min_size=1, max_size=6, unique=True))
        w = [draw(st.one_of(st.sampled_from([0.0, 1.0, 0.5, 1 / 3]), st.floats(0, 1, allow_nan=False))) for _ in keys]
        if sum(w) <= 1e-9:
            w[0] = 1.0
        N = draw(st.one_of(st.sampled_from([1, 2, 3, 5, 10, 17, 100]), st.integers(1, 200)))
    elif mode == "random":
        keys = draw(st.lists(st.tuples(*[st.integers(0, 1)] * n), min_size=1, max_size=2 ** n, unique=True))
        w = [draw(st.one_of(st.sampled_from([0.0, 1.0, 0.5, 1 / 3]), st.floats(0, 1, allow_nan=False))) for _ in keys]
        if sum(w) <= 1e-9:
            w[0] = 1.0
        N = draw(st.one_of(st.sampled_from([1, 2, 3, 5, 10, 17, 100]), st.integers(1, 200)))
    else:
        # (nearly) uniform over K outcomes: every share K*p has fractional part just above / below 0.5, so
        # rounding over- or undershoots the request by several shots and the correction path has real work
        K = draw(st.integers(4, 2 ** n))
        keys = draw(st.lists(st.tuples(*[st.integers(0, 1)] * n), min_size=K, max_size=K, unique=True))
        w = [1.0 + draw(st.sampled_from([0.0, 0.0, 1e-3, -1e-3])) for _ in keys]
        N = draw(st.integers(K // 2 + 1, K - 1)) if mode == "overshoot" else draw(st.integers(max(1, K // 4), max(1, K // 2 - 1)))
    return {"keys": [list(k) for k in keys], "w": w, "N": N, "seed": draw(st.integers(0, 2 ** 31 - 1)),
            "str_keys": draw(st.booleans()) and not dits, "mode": mode, "dits": dits}


def o_repr(spec):
    from orquestra.quantum.distributions import MeasurementOutcomeDistribution
    from orquestra.quantum.measurements import Measurements

    keys = [tuple(k) for k in spec["keys"]]
    if spec["str_keys"]:
        d = {"".join(map(str, k)): w for k, w in zip(keys, spec["w"])}
    else:
        d = dict(zip(keys, spec["w"]))
    dist = MeasurementOutcomeDistribution(dict(d))
    snap = copy.deepcopy(dist.distribution_dict)
    N = spec["N"]
    np.random.seed(spec["seed"])
    ms = must(lambda: Measurements.get_measurements_representing_distribution(dist, N), "get_measurements_representing_distribution")
    require(len(ms.bitstrings) == N, lambda: f"{len(ms.bitstrings)} shots returned for {N} requested")
    probs = {tuple(int(x) for x in k): v for k, v in snap.items()}
    for b in ms.bitstrings:
        require(probs.get(tuple(b), 0) > 0, lambda: f"shot {tuple(b)} lies outside the support {[k for k, v in probs.items() if v > 0]}")
    require(dist.distribution_dict == snap, "the distribution was modified")
    cnt = collections.Counter(tuple(b) for b in ms.bitstrings)
    for k, p in probs.items():
        require(abs(cnt.get(k, 0) - p * N) <= len(probs) + 1e-9, lambda: f"outcome {k}: {cnt.get(k, 0)} shots for share {p * N:.3f}")
    nonint = any(abs(p * N - round(p * N)) > 1e-6 for p in probs.values())
    rounded = sum(int(round(p * N)) for p in probs.values())
    extra = (["eliminate>=2"] if rounded - N >= 2 else []) + (["top_up>=2"] if N - rounded >= 2 else [])
    if spec.get("dits"):
        extra.append("multi_level_outcomes")
    return {"classes": extra + (["top_up_needed"] if nonint else ["exact"]) + (["zero_probability_outcome"] if any(v == 0 for v in probs.values()) else []),
            "nontrivial": nonint}


@st.composite
def disc_cases(draw, tier):
    k = draw(st.integers(1, 8))
    w = st.one_of(st.floats(1e-6, 1, allow_nan=False), st.integers(1, 9), st.floats(1, 1e6, allow_nan=False),
                  st.sampled_from([1 / 3, 0.1, 0.5, 2.5, 1e-6]))
    vals = [draw(w) for _ in range(k)]
    tot = draw(st.one_of(st.sampled_from([0, 1, 2, 3, 10]), st.integers(0, 60), st.integers(0, 10 ** 4)))
    return {"vals": vals, "total": tot}


def o_disc(spec):
    from orquestra.quantum.utils import scale_and_discretize

    vals, tot = spec["vals"], spec["total"]
    snapshot = list(vals)
    r = must(lambda: scale_and_discretize(vals, tot), "scale_and_discretize")
    s = sum(snapshot)
    require(len(r) == len(vals), "result has a different length")
    require(all(isinstance(x, int) and not isinstance(x, bool) for x in r), lambda: f"result {r} is not a list of ints")
    require(sum(r) == tot, lambda: f"result sums to {sum(r)}, not {tot}")
    for ri, v in zip(r, snapshot):
        share = v * tot / s
        require(ri >= 0 and abs(ri - share) <= 1 + 1e-9 * max(1, tot), lambda: f"{ri} is not within one of the proportional share {share}")
    require(vals == snapshot, "input list was modified")
    nonint = sum(1 for v in snapshot if abs(v * tot / s - round(v * tot / s)) > 1e-6)
    return {"classes": ["total_zero"] if tot == 0 else [], "nontrivial": nonint >= 2}


SUBCHECKS = [
    SubCheck("expand_combine_batch", o_expand, strategy=expand_cases, examples=(1500, 8000), shards=(4, 12),
             rule="expand_sample_sizes / combine_measurement_counts / combine_bitstrings / split_into_batches conservation"),
    SubCheck("representing_distribution", o_repr, strategy=repr_cases, examples=(800, 4000), shards=(4, 12),
             rule="get_measurements_representing_distribution: exactly N shots on the support"),
    SubCheck("scale_and_discretize", o_disc, strategy=disc_cases, examples=(3000, 20000), shards=(2, 8),
             rule="integers summing to the total, each within one of its share"),
]
SUBCHECKS[0].expected_classes = ["exact_multiple", "remainder", "below_max", "empty", "ragged_last_batch", "count_above_2^53"]
SUBCHECKS[1].expected_classes = ["top_up_needed", "exact", "zero_probability_outcome", "eliminate>=2", "top_up>=2"]


def _campaigns(tier):
    import os

    seed = int(os.environ.get("VERIF_SEED_EFFECTIVE", "1"))
    for corpus in ("empty", "seeded"):
        yield {"target": "shots", "runs": 40000, "corpus": corpus, "seed": seed, "max_len": 192}


def o_fuzz(spec):
    from vlib.fuzz import run_campaign

    return run_campaign(spec)


SUBCHECKS.append(SubCheck("atheris_shots", o_fuzz, enumerate=_campaigns, shards=(1, 2), tiers=("thorough",), timeout=(600, 3000),
                          rule="coverage-guided (Atheris/libFuzzer) campaigns, empty and seeded corpus: bytes -> (expand / combine / batch case, scale_and_discretize case) -> the conservation oracles"))
