"""C06 - binding parameters commutes with evaluating the circuit."""
import numpy as np
import sympy
from hypothesis import strategies as st

from props.C05 import fingerprint, numeric_equal, tree_equal
from vlib import cgen, ref
from vlib.harness import SubCheck, must, must_raise, require

PROPERTY_ID = "C06"
TECHNIQUE = 'differential/metamorphic property-based testing (Hypothesis): bind-then-evaluate vs evaluate-then-substitute (simultaneous) on generated symbolic circuits'
RULE = (
    "Hypothesis-generated circuits (n<=3, <=4 ops) whose gate parameters are numbers, symbols and "
    "expressions over a pool of 5 symbols; built-ins, symbolic custom gates whose actual parameters "
    "mention the definition's formal symbols, dagger/controlled wrappers, MultiPhaseOperations with "
    "symbolic phases; symbol maps partial / total / with superfluous keys, values numeric (real, and for gate-only circuits also non-real) or symbolic "
    "over fresh symbols. Oracle: gate.bind(m).matrix == gate.matrix.subs(m, simultaneous) at a random "
    "completion, same for to_unitary; split binding == one-step binding; free symbols == symbols of "
    "the parameters; Power/Exponential refuse bind with NotImplementedError. Non-trivial: the map is "
    "partial or has a symbolic value and the circuit holds a wrapped or custom gate."
)
ASSUMPTIONS = [
    "symbolic map values only mention fresh symbols (disjoint from the keys), so the result does not depend on substitution order",
    "widths <= 3, <= 4 operations (sympy matrix products)",
    "numeric parameters are Python numbers",
]

POOL = ["a", "b", "c", "d", "gamma"]
FRESH = ["f0", "f1"]


@st.composite
def _param(draw, names):
    r = draw(st.integers(0, 9))
    if r < 3:
        return draw(st.one_of(st.floats(-3, 3, allow_nan=False), st.integers(-2, 2)))
    if r < 6:
        if draw(st.integers(0, 7)) == 0:
            # two symbols may print the same and still be different symbols (same name, one declared real)
            nm = draw(st.sampled_from(names))
            return draw(st.sampled_from([["symr", nm], ["+", ["sym", nm], ["symr", nm]], ["*", ["symr", nm], ["sym", nm]]]))
        return ["sym", draw(st.sampled_from(names))]
    return draw(cgen.expr_specs(depth=2, names=names))


@st.composite
def sym_gate(draw, maxq):
    r = draw(st.integers(0, 9))
    if r < 3:
        tmpl = draw(st.sampled_from([t for t in cgen.SYM_TEMPLATES if cgen.SYM_TEMPLATE_ARITY[t][0] <= maxq]))
        npar = cgen.SYM_TEMPLATE_ARITY[tmpl][1]
        formals = draw(st.lists(st.sampled_from(POOL), min_size=npar, max_size=npar, unique=True))
        # actual parameters deliberately mention the formal symbols (swapped / shifted)
        spec = {"g": "customsym", "t": tmpl, "f": formals, "p": [draw(_param(POOL)) for _ in range(npar)]}
    else:
        nm = draw(st.sampled_from([n for n in cgen.NAMES if cgen.TABLE[n][0] <= maxq]))
        spec = {"g": nm, "p": [draw(_param(POOL)) for _ in range(cgen.TABLE[nm][1])]}
    k = cgen.base_arity(spec)
    mods = []
    for _ in range(draw(st.sampled_from([0, 0, 1, 1, 2, 3]))):
        if draw(st.booleans()):
            mods.append(["dag"])
        elif k < maxq:
            mods.append(["c", 1])
            k += 1
    spec["mods"] = mods
    return spec


@st.composite
def value(draw):
    r = draw(st.integers(0, 9))
    if r < 6:
        return draw(st.one_of(st.floats(-2, 2, allow_nan=False), st.integers(-2, 2)))
    if r == 6:
        # numbers off the real axis are numbers too: a Python complex, or a sympy number a + b*I
        re, im = draw(st.floats(-2, 2, allow_nan=False)), draw(st.sampled_from([0.5, -1.25, 1.0, 0.3]))
        return ["cplx", re, im] if draw(st.booleans()) else ["+", re, ["*", im, ["I"]]]
    return draw(cgen.expr_specs(depth=1, names=FRESH))


@st.composite
def bind_cases(draw, tier):
    n = draw(st.integers(1, 3))
    ops = []
    for _ in range(draw(st.integers(1, 4))):
        g = draw(sym_gate(n))
        perm = draw(st.permutations(list(range(n))))
        g["q"] = list(perm[: cgen.gate_arity(g)])
        ops.append(g)
    if draw(st.integers(0, 3)) == 0:
        ops.insert(draw(st.integers(0, len(ops))), {"mp": [draw(_param(POOL)) for _ in range(2 ** n)]})
    if draw(st.integers(0, 4)) == 0:
        # the other non-gate operation of the library: a reset marker (no parameters) on some qubit
        ops.insert(draw(st.integers(0, len(ops))), {"reset": draw(st.integers(0, n - 1))})
    keys = draw(st.lists(st.sampled_from(POOL + ["zz", "unused_1"]), unique=True, max_size=6))
    m = [[k, draw(value())] for k in keys]
    if any("mp" in o for o in ops):
        # MultiPhaseOperation documents real phases only and refuses anything else: keep the map real there
        m = [[k, (v[1] if isinstance(v, list) and v[0] in ("cplx", "+") and not cgen.expr_symbols(v) else v)] for k, v in m]
    order = draw(st.permutations(list(range(len(m)))))
    return {"n": n, "ops": ops, "map": m, "split": list(order[: len(m) // 2]),
            "vseed": draw(st.integers(0, 10 ** 6)), "touch": draw(st.sampled_from([True, True, False]))}


def _build(spec):
    from orquestra.quantum.circuits import Circuit, MultiPhaseOperation, ResetOperation

    ops = []
    for o in spec["ops"]:
        if "mp" in o:
            ops.append(MultiPhaseOperation(tuple(cgen.build_expr(p) for p in o["mp"])))
        elif "reset" in o:
            ops.append(ResetOperation(o["reset"]))
        else:
            ops.append(cgen.build_gate(o)(*o["q"]))
    return Circuit(ops, spec["n"])


def _map(spec, idx=None):
    items = spec["map"] if idx is None else [spec["map"][i] for i in idx]
    return {sympy.Symbol(k): cgen.build_expr(v) for k, v in items}


def _psyms(p):
    return set(p.free_symbols) if isinstance(p, sympy.Basic) else set()


def _sub(M, m):
    """Simultaneous structural substitution (xreplace: no chaining, no Dummy round trip)."""
    return M.xreplace({k: sympy.sympify(v) for k, v in m.items()})


def _num(M, vals):
    return ref.npm(sympy.N(_sub(M, vals), 20))


def _params_close(p, q, vseed):
    if isinstance(p, sympy.Basic) and p.free_symbols or isinstance(q, sympy.Basic) and q.free_symbols:
        return tree_equal(p, q) or numeric_equal(p, q, vseed)
    a, b = complex(p), complex(q)
    return abs(a - b) <= 1e-12 * max(1.0, abs(a))


def _check_fs(circ, what):
    """free symbols of a circuit == symbols its parameters depend on, in first-appearance order."""
    want, first = [], {}
    for i, op in enumerate(circ.operations):
        for p in op.params:
            for s_ in sorted(_psyms(p), key=str):
                if s_ not in first:
                    first[s_] = i
                    want.append(s_)
    got = list(circ.free_symbols)
    require(len(got) == len(set(got)) and set(got) == set(want), lambda: f"{what}: free_symbols {got} but the parameters depend on {want}")
    for a_, b_ in zip(got, got[1:]):
        require(first[a_] <= first[b_], lambda: f"{what}: free_symbols {got} not in first-appearance order")
    for op in circ.operations:
        ws = set()
        for p in op.params:
            ws |= _psyms(p)
        require(set(op.free_symbols) == ws, lambda: f"{what}: operation {op} reports free symbols {list(op.free_symbols)}, parameters depend on {sorted(map(str, ws))}")


def o_bind(spec):
    from orquestra.quantum.circuits import GateOperation

    c = _build(spec)
    m = _map(spec)
    keys = set(m)
    if spec.get("touch", True):
        # reports and evaluations requested before binding must not influence what the bound circuit reports
        _check_fs(c, "original circuit")
    cb = must(lambda: c.bind(m), "Circuit.bind")
    require(cb.n_qubits == c.n_qubits, lambda: f"bind changed the width {c.n_qubits} -> {cb.n_qubits}")
    require(len(cb.operations) == len(c.operations), "bind changed the number of operations")
    all_syms = set(sympy.Symbol(s) for s in POOL + FRESH + ["zz", "unused_1"]) | set(sympy.Symbol(s, real=True) for s in POOL)
    rest = cgen.assignment_for(all_syms, spec["vseed"])
    val_syms = {}
    for k, v in m.items():
        val_syms[k] = _psyms(v)

    want_circuit_order = []
    any_symbolic_param = False
    for i, (op, ob) in enumerate(zip(c.operations, cb.operations)):
        require(type(ob) is type(op), lambda: f"op {i}: bind changed the operation type to {type(ob).__name__}")
        require(tuple(ob.qubit_indices) == tuple(op.qubit_indices), lambda: f"op {i}: bind changed qubit indices")
        want = set()
        for p in op.params:
            want |= _psyms(p)
        any_symbolic_param |= bool(want)
        fs = list(op.free_symbols)
        require(len(fs) == len(set(fs)) and set(fs) == want, lambda: f"op {i}: free_symbols {fs} != symbols of the parameters {sorted(map(str, want))}")
        if isinstance(op, GateOperation):
            gfs = list(op.gate.free_symbols)
            require(set(gfs) == want and len(gfs) == len(want), lambda: f"op {i}: gate.free_symbols {gfs} != {sorted(map(str, want))}")
        for s in fs:
            if s not in want_circuit_order:
                want_circuit_order.append(s)
        # symbols the substituted parameters still depend on (a*b with a -> 0 no longer depends on b)
        want_b = set()
        for p in op.params:
            if isinstance(p, sympy.Basic):
                want_b |= _psyms(sympy.sympify(p).xreplace({k: sympy.sympify(v) for k, v in m.items()}))
        own_b = set()
        for q in ob.params:
            own_b |= _psyms(q)
        require(own_b == want_b, lambda: f"op {i}: bound parameters depend on {sorted(map(str, own_b))}, expected {sorted(map(str, want_b))}")
        fsb = list(ob.free_symbols)
        require(set(fsb) == want_b and len(fsb) == len(want_b), lambda: f"op {i}: after bind free_symbols {fsb}, expected {sorted(map(str, want_b))}")
        # untouched numeric parameters
        for p, q in zip(op.params, ob.params):
            if not isinstance(p, sympy.Basic):
                require(type(q) is type(p) and q == p, lambda: f"op {i}: numeric parameter {p!r} became {q!r}")
            elif not (_psyms(p) & keys):
                require(q == p or _params_close(p, q, spec["vseed"]), lambda: f"op {i}: parameter {p} without mapped symbols became {q}")
        if isinstance(op, GateOperation):
            require(ob.gate.num_qubits == op.gate.num_qubits, lambda: f"op {i}: bind changed the gate arity {op.gate.num_qubits} -> {ob.gate.num_qubits}")
            A = _num(must(lambda: ob.gate.matrix, "bound gate matrix"), rest)
            B = _num(_sub(must(lambda: op.gate.matrix, "gate matrix"), m), rest)
            require(ref.close(A, B, 1e-9), lambda: f"op {i} ({op}): bind-then-evaluate differs from evaluate-then-substitute, max|d|={ref.maxdiff(A, B):.3g}")
            A2 = _num(must(lambda: op.gate.bind(m).matrix, "gate.bind"), rest)
            require(ref.close(A2, B, 1e-9), lambda: f"op {i}: gate.bind differs from operation.bind")
        else:
            for p, q in zip(op.params, ob.params):
                a = complex(sympy.N(sympy.sympify(q).subs(rest)))
                b = complex(sympy.N(_sub(_sub(sympy.sympify(p), m), rest)))
                require(abs(a - b) <= 1e-9 * max(1, abs(b)), lambda: f"op {i}: phase parameter {p} bound to {q}")
    # circuit-level free symbols
    cfs = list(c.free_symbols)
    require(len(cfs) == len(set(cfs)) and set(cfs) == set(want_circuit_order), lambda: f"circuit free_symbols {cfs} != {want_circuit_order}")
    first_op = {}
    for i, op in enumerate(c.operations):
        for s in op.free_symbols:
            first_op.setdefault(s, i)
    for s, t in zip(cfs, cfs[1:]):
        require(first_op[s] <= first_op[t], lambda: f"circuit free_symbols {cfs} not in first-appearance order")
    require((len(cfs) == 0) == (not any_symbolic_param), "free_symbols empty does not coincide with symbol-free parameters")

    # split binding == one-step binding
    idx1 = spec["split"]
    idx2 = [i for i in range(len(spec["map"])) if i not in idx1]
    c2 = must(lambda: c.bind(_map(spec, idx1)).bind(_map(spec, idx2)), "two-step bind")
    require(c2.n_qubits == cb.n_qubits and len(c2.operations) == len(cb.operations), "two-step bind differs in shape")
    for i, (o1, o2) in enumerate(zip(cb.operations, c2.operations)):
        require(type(o1) is type(o2) and tuple(o1.qubit_indices) == tuple(o2.qubit_indices), lambda: f"op {i}: two-step bind differs in kind/indices")
        if isinstance(o1, GateOperation):
            require(_shape(o1.gate) == _shape(o2.gate), lambda: f"op {i}: two-step bind differs in gate structure")
        require(len(o1.params) == len(o2.params) and all(_params_close(p, q, spec["vseed"]) for p, q in zip(o1.params, o2.params)),
                lambda: f"op {i}: two-step bind gives params {o2.params}, one-step {o1.params}")
    _check_fs(cb, "bound circuit")
    _check_fs(c2, "circuit bound in two steps")
    # extra symbols are ignored: binding only the relevant keys gives the same circuit
    relevant = {k: v for k, v in m.items() if k in set(cfs)}
    c3 = must(lambda: c.bind(relevant), "bind(relevant keys)")
    for i, (o1, o3) in enumerate(zip(cb.operations, c3.operations)):
        require(len(o1.params) == len(o3.params) and all(_params_close(p, q, spec["vseed"]) for p, q in zip(o1.params, o3.params)),
                lambda: f"op {i}: superfluous keys changed the result")

    _check_fs(c3, "circuit bound with the relevant keys only")
    _check_fs(c, "original circuit after binding")

    # whole-circuit matrix
    gate_only = all(isinstance(o, GateOperation) for o in c.operations)
    if gate_only:
        Us = must(c.to_unitary, "to_unitary (symbolic)")
        Un = _num(_sub(sympy.Matrix(Us), m) if hasattr(Us, "subs") else sympy.Matrix(Us.tolist()), rest)
        Ub = must(cb.to_unitary, "to_unitary (bound)")
        Ubn = _num(Ub if hasattr(Ub, "subs") else sympy.Matrix(Ub.tolist()), rest)
        require(ref.close(Ubn, Un, 1e-8), lambda: f"circuit: bind-then-to_unitary differs from to_unitary-then-substitute, max|d|={ref.maxdiff(Ubn, Un):.3g}")
        R = np.eye(2 ** c.n_qubits, dtype=complex)
        for op in c.operations:
            R = ref.embed(_num(_sub(op.gate.matrix, m), rest), op.qubit_indices, c.n_qubits) @ R
        require(ref.close(Ubn, R, 1e-8), lambda: f"circuit: bound to_unitary differs from embedded per-gate product, max|d|={ref.maxdiff(Ubn, R):.3g}")
        full = must(lambda: cb.bind(rest), "bind(total)")
        require(list(full.free_symbols) == [], lambda: f"total binding left free symbols {full.free_symbols}")
        Uf = ref.npm(must(full.to_unitary, "to_unitary (numeric)"))
        require(ref.close(Uf, R, 1e-8), lambda: f"circuit: fully bound to_unitary differs, max|d|={ref.maxdiff(Uf, R):.3g}")

    cl = set()
    csyms = set(cfs)
    partial = bool(csyms - keys) and bool(csyms & keys)
    symbolic_val = any(val_syms[k] for k in keys & csyms)
    special = any(("g" in o) and (o["mods"] or o["g"] == "customsym") for o in spec["ops"])
    if partial:
        cl.add("partial_map")
    if csyms and csyms <= keys:
        cl.add("total_map")
    if keys - csyms:
        cl.add("superfluous_keys")
    if symbolic_val:
        cl.add("symbolic_value")
    if any(isinstance(v, list) and v[0] in ("cplx", "+") and not cgen.expr_symbols(v) for k, v in spec["map"] if sympy.Symbol(k) in csyms):
        cl.add("non_real_value")
    if any("mp" in o for o in spec["ops"]):
        cl.add("multiphase")
    if any("reset" in o for o in spec["ops"]):
        cl.add("reset_operation")
    if any('"symr"' in __import__("json").dumps(o.get("p", o.get("mp", []))) for o in spec["ops"]):
        cl.add("same_name_other_assumptions")
    if any(("g" in o) and o["g"] == "customsym" for o in spec["ops"]):
        cl.add("custom")
        if any(("g" in o) and o["g"] == "customsym" and set(cgen.expr_symbols(["x"] + o["p"])) & set(o["f"]) for o in spec["ops"]):
            cl.add("custom_actuals_mention_formals")
    if any(("g" in o) and o["mods"] for o in spec["ops"]):
        cl.add("wrapped")
    if gate_only and csyms and any(("g" in o) and not cgen.spec_has_symbols(o) for o in spec["ops"]):
        cl.add("mixed_numeric_symbolic_unitary")
    return {"classes": cl, "nontrivial": (partial or symbolic_val) and special}


def _shape(g):
    f = fingerprint(g)
    return f


# ---------------------------------------------------------------- refusal


@st.composite
def refuse_cases(draw, tier):
    nm = draw(st.sampled_from(cgen.NAMES))
    spec = {"g": nm, "p": [draw(cgen.angles()) for _ in range(cgen.TABLE[nm][1])]}
    n_mod = draw(st.integers(1, 4))
    kinds = [draw(st.sampled_from(["dag", "c", "pow", "exp"])) for _ in range(n_mod)]
    if not any(k in ("pow", "exp") for k in kinds):
        kinds[draw(st.integers(0, n_mod - 1))] = draw(st.sampled_from(["pow", "exp"]))
    mods = []
    k = cgen.base_arity(spec)
    for kind in kinds:
        if kind == "c":
            if k < 4:
                mods.append(["c", 1])
                k += 1
        elif kind == "pow":
            mods.append(["pow", draw(st.sampled_from([2, -1, 0.5, 3]))])
        else:
            mods.append([kind])
    spec["mods"] = mods
    return {"gate": spec, "map": [[draw(st.sampled_from(POOL)), draw(st.floats(-2, 2, allow_nan=False))] for _ in range(draw(st.integers(0, 2)))],
            "other_first": draw(st.booleans())}


def o_refuse(spec):
    from orquestra.quantum.circuits import RX, Circuit

    g = cgen.build_gate(spec["gate"])
    m = {sympy.Symbol(k): v for k, v in spec["map"]}
    must_raise(NotImplementedError, lambda: g.bind(m), "bind on a gate with a power/exp wrapper")
    op = g(*range(g.num_qubits))
    must_raise(NotImplementedError, lambda: op.bind(m), "GateOperation.bind with a power/exp wrapper")
    other = RX(sympy.Symbol("a"))(0)
    c = Circuit([other, op] if spec["other_first"] else [op, other])
    must_raise(NotImplementedError, lambda: c.bind(m), "Circuit.bind with a power/exp wrapper")
    kinds = [x[0] for x in spec["gate"]["mods"]]
    outer = kinds[-1] in ("dag", "c")
    return {"classes": (["refusing_wrapper_below_other_wrapper"] if outer else []) + ["kind:" + k for k in set(kinds)],
            "nontrivial": len(kinds) >= 2}


SUBCHECKS = [
    SubCheck("bind_commutes", o_bind, strategy=bind_cases, examples=(100, 700), shards=(15, 16), fork_timeout=60,
             rule="gate / operation / circuit: bind-then-evaluate == evaluate-then-substitute; free symbols; split binding; untouched parameters"),
    SubCheck("bind_refused", o_refuse, strategy=refuse_cases, examples=(300, 1500), shards=(1, 4),
             rule="Power / Exponential anywhere on the bind path raise NotImplementedError; non-trivial = >=2 modifiers"),
]
SUBCHECKS[0].expected_classes = ["partial_map", "total_map", "superfluous_keys", "symbolic_value", "multiphase", "custom",
                                 "custom_actuals_mention_formals", "wrapped", "mixed_numeric_symbolic_unitary", "non_real_value"]
