"""C01 - a circuit acts as the ordered product of its gates on the named qubits."""
import json

import numpy as np
from hypothesis import strategies as st

from vlib import cgen, ref
from vlib.harness import SubCheck, must, require

PROPERTY_ID = "C01"
TECHNIQUE = 'property-based testing (Hypothesis spec generators, sharded) against a numpy tensordot reference model; session sub-check over many circuits per process'
RULE = (
    "Hypothesis-generated circuit specs (n<=5 quick / 6 thorough, <=8/14 ops, 27 built-ins, "
    "random-unitary custom gates, dagger/controlled/integer-power wrappers, arity<=4, qubit "
    "tuples = ordered prefixes of random permutations, optional idle qubits). Oracle: numpy "
    "tensordot embedding of each gate's own matrix, multiplied in program order. Non-trivial: "
    ">=2 ops and (a multi-qubit op on a non-ascending or non-adjacent tuple, or an idle "
    "qubit, or a native/non-native boundary). Distinct = distinct canonical spec JSON. Further sub-checks: circuits whose "
    "gate parameters are partly free symbols (symbolic_unitary), phase-only operations inside circuits given to the bundled "
    "simulator, registers of 9-11 qubits with index tuples spanning the register (wide_apply, state-vector reference), "
    "sessions of related circuits in one process."
)
ASSUMPTIONS = [
    "gate parameters are Python floats (numpy scalars are outside the property's domain)",
    "register width <= 6, gate arity <= 4 (dense 2^n reference); widths 9-11 through a state-vector reference (wide_apply)",
    "zero-length Circuit.to_unitary() (TypeError from reduce) is a refusal and not asserted",
]


def own_matrix_product(c, n):
    """Reference: product in program order of each gate's own matrix on its qubits."""
    U = np.eye(2 ** n, dtype=complex)
    for op in c.operations:
        q = tuple(op.qubit_indices)
        require(len(set(q)) == len(q) and len(q) == op.gate.num_qubits and all(0 <= i < n for i in q), lambda: f"operation {op} has invalid qubit indices {q} on {n} qubits")
        U = ref.embed(ref.npm(op.gate.matrix), op.qubit_indices, n) @ U
    return U


def _nontrivial(spec):
    cl = cgen.circuit_classes(spec)
    return len(spec["ops"]) >= 2 and bool(cl & {"permuted", "non_adjacent", "idle"})


def _classes(spec):
    return cgen.circuit_classes(spec)


def _sizes(tier):
    return dict(max_n=5, max_ops=8) if tier == "quick" else dict(max_n=6, max_ops=14)


# ------------------------------------------------------------------ (a) to_unitary


def o_unitary(spec):
    c = cgen.build_circuit(spec)
    n = cgen.circuit_width(spec)
    require(c.n_qubits == n, lambda: f"n_qubits {c.n_qubits} != expected width {n}")
    U = ref.npm(must(c.to_unitary, "to_unitary"))
    R = own_matrix_product(c, n)
    require(ref.close(U, R), lambda: f"to_unitary differs from ordered product, max|d|={ref.maxdiff(U, R):.3g}")
    # the gates' own matrices agree with the independent closed forms (ties C01 to C02/C07)
    R2 = cgen.ref_circuit_matrix(spec, n)
    require(ref.close(U, R2), lambda: f"to_unitary differs from closed-form product, max|d|={ref.maxdiff(U, R2):.3g}")


# ------------------------------------------------------------------ (b) apply fold / (c) bundled simulator


@st.composite
def circuit_with_state(draw, tier):
    spec = draw(cgen.circuit_specs(**_sizes(tier)))
    spec["sseed"] = draw(st.one_of(st.integers(0, 10 ** 6), st.integers(-64, -1)))
    return spec


def o_apply(spec):
    c = cgen.build_circuit(spec)
    n = cgen.circuit_width(spec)
    init = cgen.state_from_seed(n, spec["sseed"])
    R = own_matrix_product(c, n) @ init
    state = init.copy()
    for op in c.operations:
        state = must(lambda: op.apply(state), "GateOperation.apply")
    state = np.asarray(state, dtype=complex).reshape(-1)
    require(ref.close(state, R), lambda: f"op-by-op application differs, max|d|={ref.maxdiff(state, R):.3g}")


@st.composite
def circuit_with_state_and_phases(draw, tier):
    """Gate circuits with phase-only non-gate operations interleaved (for the bundled simulator)."""
    spec = draw(circuit_with_state(tier))
    n = cgen.circuit_width(spec)
    spec["width"] = n
    if n <= 5 and draw(st.integers(0, 2)) == 0:
        for _ in range(draw(st.integers(1, 2))):
            spec["ops"].insert(draw(st.integers(0, len(spec["ops"]))), {"mp": [draw(st.floats(-7, 7, allow_nan=False)) for _ in range(2 ** n)]})
    return spec


def _symsim_classes(spec):
    cl = set(cgen.circuit_classes({"ops": [o for o in spec["ops"] if "g" in o], "width": spec.get("width")}))
    if any("mp" in o for o in spec["ops"]):
        cl.add("multiphase")
        gates_before = False
        for o in spec["ops"]:
            if "mp" in o and gates_before:
                cl.add("multiphase_after_gates")
            gates_before = gates_before or "g" in o
    return cl


def o_symsim(spec):
    from orquestra.quantum.runners import SymbolicSimulator

    if any("mp" in o for o in spec["ops"]):
        n = spec["width"]
        c = _build_split({"ops": spec["ops"], "n": n})
        M = np.eye(2 ** n, dtype=complex)
        for o, op in zip(spec["ops"], c.operations):
            if "mp" in o:
                M = np.diag(np.exp(1j * np.asarray(o["mp"]))) @ M
            else:
                M = ref.embed(ref.npm(op.gate.matrix), op.qubit_indices, n) @ M
    else:
        c = cgen.build_circuit(spec)
        n = cgen.circuit_width(spec)
        M = own_matrix_product(c, n)
    init = cgen.state_from_seed(n, spec["sseed"])
    sim = SymbolicSimulator()
    wf = must(lambda: sim.get_wavefunction(c, init.copy()), "get_wavefunction(init)")
    a = np.asarray(wf.amplitudes, dtype=complex).reshape(-1)
    require(ref.close(a, M @ init), lambda: f"simulator state differs (given init), max|d|={ref.maxdiff(a, M @ init):.3g}")
    wf0 = must(lambda: sim.get_wavefunction(c), "get_wavefunction()")
    a0 = np.asarray(wf0.amplitudes, dtype=complex).reshape(-1)
    require(ref.close(a0, M[:, 0]), lambda: f"simulator state differs (default |0..0>), max|d|={ref.maxdiff(a0, M[:, 0]):.3g}")


# ------------------------------------------------------------------ (c2) circuits that still carry free symbols


@st.composite
def symbolic_specs(draw, tier):
    """A numeric circuit spec plus a list of (operation, parameter) positions written as symbols; the symbol values are
    the numbers they replace, so substituting them must give the matrix of the numeric circuit."""
    sz = _sizes(tier)
    names = [g for g in cgen.NAMES if cgen.TABLE[g][1]] + ["CNOT", "H", "SWAP", "T"]
    spec = draw(cgen.circuit_specs(max_n=min(sz["max_n"], 4), max_ops=min(sz["max_ops"], 5), maxq=3, int_powers=(2,), names=names))
    slots = [(i, j) for i, o in enumerate(spec["ops"]) if o["g"] in cgen.TABLE and not any(m[0] == "pow" for m in o.get("mods", []))
             for j in range(len(o["p"]))]
    chosen = draw(st.lists(st.sampled_from(slots), unique=True, min_size=1, max_size=4)) if slots else []
    spec["symbolised"] = [list(x) for x in chosen]
    return spec


def o_symbolic(spec):
    import sympy

    if not spec["symbolised"]:
        return {"inconclusive": "no_parametric_gate"}
    sym_spec = json.loads(json.dumps(spec))
    vals = {}
    for t, (i, j) in enumerate(spec["symbolised"]):
        name = "s%d" % t
        vals[sympy.Symbol(name)] = sympy.Float(spec["ops"][i]["p"][j])
        sym_spec["ops"][i]["p"][j] = ["sym", name]
    c = cgen.build_circuit(sym_spec)
    n = cgen.circuit_width(spec)
    require(set(c.free_symbols) == set(vals), lambda: f"free symbols {c.free_symbols}, expected {sorted(map(str, vals))}")
    U = must(c.to_unitary, "to_unitary (free symbols)")
    Un = ref.npm(sympy.N(sympy.Matrix(U).xreplace(vals), 20))
    R = cgen.ref_circuit_matrix(spec, n)
    require(ref.close(Un, R, 1e-8), lambda: f"symbolic to_unitary, evaluated at the symbols' values, differs from the closed-form product, max|d|={ref.maxdiff(Un, R):.3g}")
    # each lifted matrix on its own
    for k, (op, o) in enumerate(zip(c.operations, spec["ops"])):
        L = must(lambda: op.lifted_matrix(n), "lifted_matrix")
        Ln = ref.npm(sympy.N(sympy.Matrix(L).xreplace(vals), 20)) if hasattr(L, "xreplace") else ref.npm(L)
        Rk = ref.embed(cgen.ref_gate_matrix(o), o["q"], n)
        require(ref.close(Ln, Rk, 1e-8), lambda: f"op {k}: lifted matrix (symbolic) differs from the gate placed on qubits {o['q']}, max|d|={ref.maxdiff(Ln, Rk):.3g}")
    cl = set(cgen.circuit_classes(spec))
    sym_ops = {i for i, _ in spec["symbolised"]}
    if any(len(spec["ops"][i]["q"]) >= 2 and spec["ops"][i]["q"] != sorted(spec["ops"][i]["q"]) for i in sym_ops):
        cl.add("symbolic_gate_on_permuted_tuple")
    if any(len(spec["ops"][i]["q"]) >= 3 for i in sym_ops):
        cl.add("symbolic_gate_arity>=3")
    if len(sym_ops) < len(spec["ops"]):
        cl.add("mixed_numeric_symbolic")
    return {"classes": cl, "nontrivial": "symbolic_gate_on_permuted_tuple" in cl}


# ------------------------------------------------------------------ (c3) wide registers (state-vector reference)


@st.composite
def wide_specs(draw, tier):
    n = draw(st.sampled_from([9, 9, 10] if tier == "quick" else [9, 10, 10, 11]))
    ops = []
    for _ in range(draw(st.integers(1, 3))):
        g = draw(cgen.gate_specs(maxq=3, max_mods=1, mods=("dag", "c"), custom=True))
        k = cgen.gate_arity(g)
        # index tuples that span the register: low and high qubits together, in any order
        lo, hi = draw(st.sampled_from([0, 0, 0, 1, 2])), draw(st.sampled_from([n - 1, n - 1, n - 1, n - 2, n - 3]))
        rest = [q for q in range(n) if q not in (lo, hi)]
        q = [lo, hi] + list(draw(st.permutations(rest)))[: max(0, k - 2)]
        q = list(draw(st.permutations(q[:k]))) if k >= 2 else [draw(st.sampled_from([lo, hi, rest[0]]))]
        g["q"] = q
        ops.append(g)
    return {"n": n, "width": n, "ops": ops, "sseed": draw(st.one_of(st.integers(0, 10 ** 6), st.integers(-512, -1)))}


def o_wide(spec):
    from orquestra.quantum.runners import SymbolicSimulator

    n = spec["n"]
    c = cgen.build_circuit(spec)
    init = cgen.state_from_seed(n, spec["sseed"])
    want = init.copy()
    for o, op in zip(spec["ops"], c.operations):
        want = ref.embed_apply(ref.npm(op.gate.matrix), o["q"], n, want)
    state = init.copy()
    for op in c.operations:
        state = must(lambda: op.apply(state), "GateOperation.apply")
    state = np.asarray(state, dtype=complex).reshape(-1)
    require(ref.close(state, want), lambda: f"{n} qubits: op-by-op application differs from the gates placed on their qubits, max|d|={ref.maxdiff(state, want):.3g}")
    wf = must(lambda: SymbolicSimulator().get_wavefunction(c, init.copy()), "get_wavefunction(init)")
    a = np.asarray(wf.amplitudes, dtype=complex).reshape(-1)
    require(ref.close(a, want), lambda: f"{n} qubits: simulator state differs, max|d|={ref.maxdiff(a, want):.3g}")
    # one column of the circuit's matrix
    if n <= 10 and spec["sseed"] < 0:
        U = ref.npm(must(c.to_unitary, "to_unitary"))
        col = (-spec["sseed"] - 1) % (2 ** n)
        require(U.shape == (2 ** n, 2 ** n) and ref.close(U[:, col], want), lambda: f"{n} qubits: column {col} of to_unitary differs, max|d|={ref.maxdiff(U[:, col], want):.3g}")
    span = max(max(o["q"]) - min(o["q"]) for o in spec["ops"])
    cl = ["n:%d" % n] + (["span>=8"] if any(len(o["q"]) >= 2 and max(o["q"]) - min(o["q"]) >= 8 for o in spec["ops"]) else [])
    return {"classes": cl, "nontrivial": "span>=8" in cl}


# ------------------------------------------------------------------ (d) base-class simulator, any native split


@st.composite
def split_specs(draw, tier):
    sz = _sizes(tier)
    n = draw(st.integers(1, min(sz["max_n"], 5)))
    ops = []
    for _ in range(draw(st.integers(1, sz["max_ops"]))):
        if draw(st.integers(0, 3)) == 0:
            ops.append({"mp": [draw(st.floats(-7, 7, allow_nan=False)) for _ in range(2 ** n)]})
        else:
            g = draw(cgen.gate_specs(maxq=min(n, 4)))
            perm = draw(st.permutations(list(range(n))))
            g["q"] = list(perm[: cgen.gate_arity(g)])
            ops.append(g)
    names = sorted({o["g"] for o in ops if "g" in o})
    native = draw(st.lists(st.sampled_from(names), unique=True)) if names else []
    return {
        "n": n, "ops": ops, "native": sorted(native),
        "mp_native": draw(st.booleans()),
        "native_max_arity": draw(st.integers(1, 4)),
        "sseed": draw(st.one_of(st.integers(0, 10 ** 6), st.integers(-32, -1))),
        "use_init": draw(st.booleans()),
    }


def _build_split(spec):
    from orquestra.quantum.circuits import Circuit, MultiPhaseOperation

    ops = []
    for o in spec["ops"]:
        if "mp" in o:
            ops.append(MultiPhaseOperation(tuple(o["mp"])))
        else:
            ops.append(cgen.build_gate(o)(*o["q"]))
    return Circuit(ops, spec["n"])


def _make_sim(spec, log):
    from orquestra.quantum.api.wavefunction_simulator import BaseWavefunctionSimulator
    from orquestra.quantum.circuits import GateOperation, MultiPhaseOperation

    native_names = set(spec["native"])

    def base_name(gate):
        while hasattr(gate, "wrapped_gate"):
            gate = gate.wrapped_gate
        return gate.name

    class Sim(BaseWavefunctionSimulator):
        def is_natively_supported(self, operation):
            if isinstance(operation, MultiPhaseOperation):
                return spec["mp_native"]
            nm = base_name(operation.gate)
            nm = "custom" if nm.startswith("cg") else ("cexact" if nm.startswith("ce_") else nm)
            return nm in native_names and len(operation.qubit_indices) <= spec["native_max_arity"]

        def _get_wavefunction_from_native_circuit(self, circuit, initial_state):
            log.append(len(circuit.operations))
            state = np.asarray(initial_state, dtype=complex).reshape(-1)
            n = circuit.n_qubits
            for op in circuit.operations:
                if not self.is_natively_supported(op):
                    raise AssertionError("non-native operation handed to the native step")
                if isinstance(op, GateOperation):
                    state = ref.embed_apply(ref.npm(op.gate.matrix), op.qubit_indices, n, state)
                else:
                    state = state * np.exp(1j * np.asarray(op.params, dtype=float))
            return state

    return Sim()


def o_split(spec):
    n = spec["n"]
    c = _build_split(spec)
    init = cgen.state_from_seed(n, spec["sseed"]) if spec["use_init"] else None
    state = init.copy() if init is not None else np.eye(2 ** n, dtype=complex)[:, 0]
    flags = []
    log = []
    sim = _make_sim(spec, log)
    for o, op in zip(spec["ops"], c.operations):
        if "mp" in o:
            state = state * np.exp(1j * np.asarray(o["mp"]))
        else:
            state = ref.embed_apply(ref.npm(op.gate.matrix), o["q"], n, state)
        flags.append(bool(sim.is_natively_supported(op)))
    segments = 1 + sum(1 for a, b in zip(flags, flags[1:]) if a != b)
    native_segments = (1 if flags[0] else 0) + sum(
        1 for a, b in zip(flags, flags[1:]) if a != b and b
    )
    wf = must(
        lambda: sim.get_wavefunction(c, init.copy()) if init is not None else sim.get_wavefunction(c),
        "get_wavefunction",
    )
    a = np.asarray(wf.amplitudes, dtype=complex).reshape(-1)
    require(ref.close(a, state), lambda: f"base-class simulator state differs, max|d|={ref.maxdiff(a, state):.3g}")
    require(len(log) == native_segments, lambda: f"native step ran {len(log)} times, expected {native_segments}")
    cl = set(cgen.circuit_classes({"ops": [o for o in spec["ops"] if "g" in o], "width": n}))
    if any("mp" in o for o in spec["ops"]):
        cl.add("multiphase")
    if segments >= 2:
        cl.add("boundary")
    if segments >= 3:
        cl.add("segments>=3")
    return {"classes": cl, "nontrivial": len(spec["ops"]) >= 2 and segments >= 2}


# ------------------------------------------------------------------ (e) concatenation


@st.composite
def concat_specs(draw, tier):
    sz = _sizes(tier)
    a = draw(cgen.circuit_specs(max_n=sz["max_n"], max_ops=5, min_ops=0))
    b = draw(cgen.circuit_specs(max_n=sz["max_n"], max_ops=5, min_ops=1))
    return {"a": a, "b": b, "single": draw(st.booleans())}


def o_concat(spec):
    from orquestra.quantum.circuits import Circuit

    ca, cb = cgen.build_circuit(spec["a"]), cgen.build_circuit(spec["b"])
    na, nb = cgen.circuit_width(spec["a"]), cgen.circuit_width(spec["b"])
    if na == 0:
        ca = Circuit()
    if spec["single"]:
        op = cb.operations[0]
        nb = max(op.qubit_indices) + 1
        s = must(lambda: ca + op, "circuit + operation")
        ops_b = [op]
    else:
        s = must(lambda: ca + cb, "circuit + circuit")
        ops_b = list(cb.operations)
    n = max(na, nb)
    require(s.n_qubits == n, lambda: f"width of sum is {s.n_qubits}, expected max({na},{nb})")
    require(
        list(s.operations) == list(ca.operations) + ops_b,
        "operations of the sum are not the concatenation",
    )
    R = np.eye(2 ** n, dtype=complex)
    for op in list(ca.operations) + ops_b:
        R = ref.embed(ref.npm(op.gate.matrix), op.qubit_indices, n) @ R
    U = ref.npm(must(s.to_unitary, "to_unitary of sum"))
    require(ref.close(U, R), lambda: f"sum does not compose the actions, max|d|={ref.maxdiff(U, R):.3g}")
    return {"classes": ["different_widths"] if na != nb else [], "nontrivial": na != nb}


# ------------------------------------------------------------------ (f) sessions: related circuits in one process
# A result must depend only on the circuit, not on what was evaluated before it. Each case is
# a short session of circuits on the same register evaluated one after another in ONE process;
# custom gates reuse a small pool of names with different matrices (a parameter sweep that
# re-creates "U" every iteration) and the circuits reuse the same index tuples, so any
# memoisation keyed on less than the full content of a gate shows up as a stale matrix.


@st.composite
def session_specs(draw, tier):
    n = draw(st.integers(2, 4 if tier == "quick" else 5))
    tuples = [list(t) for t in draw(st.lists(st.permutations(list(range(n))), min_size=1, max_size=2))]
    circuits = []
    for _ in range(draw(st.integers(2, 4))):
        ops = []
        for _ in range(draw(st.integers(1, 4))):
            kind = draw(st.integers(0, 3))
            if kind <= 1:
                k = draw(st.integers(1, min(2, n)))
                g = {"g": "custom", "k": k, "mseed": draw(st.integers(0, 4)), "p": [],
                     "name": draw(st.sampled_from(["U", "V"])),
                     "mods": draw(st.sampled_from([[], [], [["dag"]], [["c", 1]], [["pow", 2]]]))}
                if cgen.gate_arity(g) > n:
                    g["mods"] = []
            elif kind == 2:
                nm = draw(st.sampled_from(["RX", "RZ", "PHASE", "XX", "CPHASE", "U3"]))
                if cgen.TABLE[nm][0] > n:
                    nm = "RX"
                base = draw(st.sampled_from([0.5, -1.0, -2.0, 1.0]))
                delta = draw(st.sampled_from([0.0, 0.0, 1e-9, 3e-7, -2.5e-9]))
                g = {"g": nm, "p": [base + delta] + [0.25] * (cgen.TABLE[nm][1] - 1), "mods": []}
            else:
                g = draw(cgen.gate_specs(maxq=min(n, 3), custom=False))
            tup = draw(st.sampled_from(tuples))
            g["q"] = tup[: cgen.gate_arity(g)]
            ops.append(g)
        circuits.append({"n": n, "width": n, "ops": ops})
    return {"circuits": circuits, "sseed": draw(st.integers(0, 10 ** 6))}


def _session_reuse(spec):
    """a custom-gate name that occurs with two different matrices on the same index tuple"""
    seen = {}
    for c in spec["circuits"]:
        for o in c["ops"]:
            if o["g"] == "custom":
                key = (o["name"], o["k"], tuple(o["q"]), json.dumps(o["mods"]))
                if key in seen and seen[key] != o["mseed"]:
                    return True
                seen.setdefault(key, o["mseed"])
    return False


def o_session(spec):
    from orquestra.quantum.runners import SymbolicSimulator

    sim = SymbolicSimulator()
    for i, cs in enumerate(spec["circuits"]):
        c = cgen.build_circuit(cs)
        n = cs["n"]
        U = ref.npm(must(c.to_unitary, "to_unitary"))
        R = own_matrix_product(c, n)
        require(ref.close(U, R), lambda: f"circuit {i} of the session: to_unitary differs from the ordered product of its own gates' matrices, max|d|={ref.maxdiff(U, R):.3g}")
        R2 = cgen.ref_circuit_matrix(cs, n)
        require(ref.close(U, R2), lambda: f"circuit {i} of the session: to_unitary differs from closed-form product, max|d|={ref.maxdiff(U, R2):.3g}")
        init = cgen.state_from_seed(n, spec["sseed"] + i)
        state = init.copy()
        for op in c.operations:
            state = must(lambda: op.apply(state), "GateOperation.apply")
        state = np.asarray(state, dtype=complex).reshape(-1)
        require(ref.close(state, R @ init), lambda: f"circuit {i} of the session: op-by-op application differs, max|d|={ref.maxdiff(state, R @ init):.3g}")
        wf = must(lambda: sim.get_wavefunction(c, init.copy()), "get_wavefunction(init)")
        a = np.asarray(wf.amplitudes, dtype=complex).reshape(-1)
        require(ref.close(a, R @ init), lambda: f"circuit {i} of the session: simulator state differs, max|d|={ref.maxdiff(a, R @ init):.3g}")
    reuse = _session_reuse(spec)
    return {"classes": ["name_reused_with_other_matrix"] if reuse else [], "nontrivial": reuse}


SUBCHECKS = [
    SubCheck("to_unitary", o_unitary, strategy=lambda t: cgen.circuit_specs(**_sizes(t)),
             nontrivial=_nontrivial, classes=_classes, examples=(400, 1500), shards=(4, 16), fork_timeout=20,
             rule="to_unitary vs ordered product of embedded own/closed-form matrices"),
    SubCheck("apply_fold", o_apply, strategy=circuit_with_state, nontrivial=_nontrivial,
             classes=_classes, examples=(300, 1000), shards=(2, 8), fork_timeout=20,
             rule="folding op.apply over a random state"),
    SubCheck("symbolic_simulator", o_symsim, strategy=circuit_with_state_and_phases, nontrivial=lambda s: len(s["ops"]) >= 2 and bool(_symsim_classes(s) & {"permuted", "non_adjacent", "idle", "multiphase_after_gates"}),
             classes=_symsim_classes, examples=(300, 1000), shards=(2, 8), fork_timeout=20,
             rule="SymbolicSimulator.get_wavefunction with given and default initial state, phase-only operations interleaved in a third of the circuits"),
    SubCheck("symbolic_unitary", o_symbolic, strategy=symbolic_specs, examples=(150, 600), shards=(4, 12), fork_timeout=40,
             rule="circuits in which 1-4 gate parameters are free symbols: to_unitary / lifted_matrix evaluated at the symbols' values vs the closed-form product of the numeric circuit; non-trivial = a symbolic multi-qubit gate on a non-ascending tuple"),
    SubCheck("wide_apply", o_wide, strategy=wide_specs, examples=(12, 60), shards=(8, 16), fork_timeout=120,
             rule="registers of 9-10 (11 thorough) qubits, 1-3 gates whose index tuples span the register: op.apply fold, the bundled simulator and one column of to_unitary vs the state-vector reference; non-trivial = a multi-qubit gate spanning >= 9 qubits"),
    SubCheck("native_split", o_split, strategy=split_specs, examples=(400, 1500), shards=(3, 12), fork_timeout=20,
             rule="BaseWavefunctionSimulator subclass with drawn native set + MultiPhaseOperations; non-trivial = >=1 native/non-native boundary"),
    SubCheck("concat", o_concat, strategy=concat_specs, examples=(300, 1000), shards=(2, 6), fork_timeout=20,
             rule="c1+c2 / c+op: width = max, action composes; non-trivial = different widths"),
]
SUBCHECKS.append(SubCheck("session", o_session, strategy=session_specs, examples=(150, 800), shards=(3, 8), fork_timeout=40,
                          rule="2-4 related circuits evaluated one after another in one process (custom-gate names reused with different matrices on the same index tuples, nearly equal angles): every result depends on its circuit only; non-trivial = a name reused with another matrix on the same tuple"))
SUBCHECKS[-1].expected_classes = ["name_reused_with_other_matrix"]
for _s in SUBCHECKS[:3]:
    _s.expected_classes = ["permuted", "non_adjacent", "arity3", "arity4", "idle", "wrapped", "custom"]
SUBCHECKS[2].expected_classes = SUBCHECKS[2].expected_classes + ["multiphase", "multiphase_after_gates"]
SUBCHECKS[3].expected_classes = ["symbolic_gate_on_permuted_tuple", "symbolic_gate_arity>=3", "mixed_numeric_symbolic", "wrapped"]
SUBCHECKS[4].expected_classes = ["span>=8"]
SUBCHECKS[5].expected_classes = ["multiphase", "boundary", "segments>=3"]
