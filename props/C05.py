"""C05 - circuits survive JSON serialisation unchanged in structure and meaning."""
import io
import json
import math
import os
import tempfile

import numpy as np
import sympy
from hypothesis import strategies as st

from vlib import cgen, ref
from vlib.harness import SubCheck, forked, is_open, must, must_raise, require, Violation

PROPERTY_ID = "C05"
TECHNIQUE = 'round-trip property-based testing (Hypothesis) through real JSON text and files; structural fingerprint + numeric evaluation oracle; probes for open findings'
RULE = (
    "Hypothesis-generated circuits / circuit lists over all 27 built-ins, numeric and symbolic "
    "custom gate definitions (formal names incl. sympy-shadowing ones), wrapper nestings "
    "(controlled/dagger/power/exp) to depth 3 (4 thorough), parameters = Python ints/floats, "
    "bare and indexed symbols, sympy expressions. Path: to_dict -> json.dumps -> json.loads -> "
    "circuit_from_dict, and save/load through a temp file and StringIO. Oracle: own structural "
    "fingerprint (wrapper kinds, control counts, exponents, base names, custom definitions, qubit "
    "tuples, width), parameter equality (bit-exact for Python numbers, identical bare symbols, "
    "1e-12 relative on Float atoms of expressions), free symbols, library == when representable, "
    "and matrices at a random assignment. Non-trivial: nesting depth >= 2, or custom gate under a "
    "wrapper, or >= 2 distinct symbols incl. a sympy-shadowing name, or an indexed symbol."
)
ASSUMPTIONS = [
    "symbol names are identifiers or name[index]; never Python keywords, never names of functions used in expressions, never next to the sympy constant they shadow",
    "open findings K3 (symbol b and b[i] in one gate) and K4 (symbols named Integer/Float/Rational) are excluded from the main search and probed separately",
    "matrix comparison is skipped (structure still compared) for chains sympy cannot evaluate in bounded time",
    "custom gate names avoid built-in gate names, 'Control', 'Exponential', '^' and the suffix 'Dagger'",
]


# ---------------------------------------------------------------- generators


@st.composite
def _param(draw, numeric_only, sym_kw):
    if numeric_only or draw(st.integers(0, 9)) < 4:
        if draw(st.integers(0, 7)) == 0:
            return draw(cgen.python_complex())
        return draw(cgen.python_numbers())
    r = draw(st.integers(0, 9))
    if r < 4:
        return draw(cgen.symbol_atoms(**sym_kw))
    return draw(cgen.expr_specs(depth=draw(st.integers(1, 3)), **sym_kw))


@st.composite
def serde_gate(draw, maxq, tier, mods_pool=("dag", "c", "pow", "exp")):
    depth = draw(st.sampled_from([0, 0, 1, 1, 2, 3] if tier == "quick" else [0, 1, 1, 2, 3, 4]))
    ws = [draw(st.sampled_from(list(mods_pool))) for _ in range(depth)]
    numeric_only = any(w in ("pow", "exp") for w in ws)
    sym_kw = {}
    r = draw(st.integers(0, 9))
    if r < 2 and maxq >= 1:
        tmpl = draw(st.sampled_from([t for t in cgen.SYM_TEMPLATES if cgen.SYM_TEMPLATE_ARITY[t][0] <= maxq]))
        npar = cgen.SYM_TEMPLATE_ARITY[tmpl][1]
        # the templates mention the imaginary unit: a formal named "I" next to it is textually ambiguous
        formals = draw(st.lists(st.sampled_from(cgen.PLAIN_NAMES + [s for s in cgen.SHADOW_NAMES if s != "I"]), min_size=npar, max_size=npar, unique=True))
        spec = {"g": "customsym", "t": tmpl, "f": formals,
                "p": [draw(_param(numeric_only, sym_kw)) for _ in range(npar)]}
    elif r < 3:
        k = draw(st.integers(1, min(2, maxq)))
        spec = {"g": "custom", "k": k, "mseed": draw(st.integers(0, 50)), "p": []}
    else:
        nm = draw(st.sampled_from([n for n in cgen.NAMES if cgen.TABLE[n][0] <= maxq]))
        spec = {"g": nm, "p": [draw(_param(numeric_only, sym_kw)) for _ in range(cgen.TABLE[nm][1])]}
    if "I" in cgen.expr_symbols(["x"] + spec["p"]):
        # the text "2.5j" next to a symbol named I cannot tell the imaginary unit from the symbol (textual format)
        spec["p"] = [p[1] if isinstance(p, list) and p[0] == "cplx" else p for p in spec["p"]]
    k = cgen.base_arity(spec)
    mods = []
    for w in ws:
        if w == "dag":
            mods.append(["dag"])
        elif w == "c":
            if k < maxq:
                c = draw(st.integers(1, min(2, maxq - k)))
                mods.append(["c", c])
                k += c
        elif w == "pow":
            mods.append(["pow", draw(st.sampled_from([2, -1, 3, 0.5, 1 / 3, 2.5, -2, 0.1, 0, 0.0, 1, -0.5]))])
        else:
            mods.append(["exp"])
    spec["mods"] = mods
    if mods and draw(st.integers(0, 3)) == 0:
        spec["raw"] = True  # nest the public wrapper classes directly instead of calling .controlled() / .dagger / ...
    return spec


@st.composite
def serde_circuit(draw, tier, **kw):
    n = draw(st.integers(1, 5))
    ops = []
    for _ in range(draw(st.integers(0, 4 if tier == "quick" else 7))):
        g = draw(serde_gate(n, tier, **kw))
        perm = draw(st.permutations(list(range(n))))
        g["q"] = list(perm[: cgen.gate_arity(g)])
        ops.append(g)
    width = draw(st.sampled_from([None, n, n + 2]))
    if not ops and width is None:
        width = draw(st.sampled_from([None, n]))
    return {"n": n, "width": width, "ops": ops, "vseed": draw(st.integers(0, 10 ** 6))}


def _consistent_defs(specs):
    """Custom definitions of one serialised unit must agree per name (library precondition)."""
    return True  # names are derived from (template, formals) / (k, mseed): always consistent


# ---------------------------------------------------------------- oracle helpers


def fingerprint(g):
    from orquestra.quantum.circuits import _gates as G

    if isinstance(g, G.ControlledGate):
        return ("C", g.num_control_qubits, fingerprint(g.wrapped_gate))
    if isinstance(g, G.Dagger):
        return ("D", fingerprint(g.wrapped_gate))
    if isinstance(g, G.Power):
        return ("P", float(g.exponent), fingerprint(g.wrapped_gate))
    if isinstance(g, G.Exponential):
        return ("E", fingerprint(g.wrapped_gate))
    require(isinstance(g, G.MatrixFactoryGate), lambda: f"unknown gate object {type(g).__name__}")
    cust = isinstance(g.matrix_factory, G.CustomGateMatrixFactory)
    return ("B", g.name, g.num_qubits, len(g.params), bool(g.is_hermitian), cust)


def innermost(g):
    while hasattr(g, "wrapped_gate"):
        g = g.wrapped_gate
    return g


def _num(x):
    return complex(sympy.N(x, 30))


def tree_equal(p, q, tol=1e-12):
    p, q = sympy.sympify(p), sympy.sympify(q)
    if isinstance(p, sympy.Float) or isinstance(q, sympy.Float):
        if not (p.is_number and q.is_number):
            return False
        a, b = complex(p), complex(q)
        return abs(a - b) <= tol * max(abs(a), abs(b))
    if p.is_Atom or q.is_Atom:
        return p == q
    if p.func != q.func or len(p.args) != len(q.args):
        return False
    return all(tree_equal(a, b, tol) for a, b in zip(p.args, q.args))


def numeric_equal(p, q, vseed, tol=1e-10):
    p, q = sympy.sympify(p), sympy.sympify(q)
    syms = set(p.free_symbols) | set(q.free_symbols)
    ok_any = False
    for t in range(3):
        vals = cgen.assignment_for(syms, vseed + 17 * t)
        try:
            a, b = _num(p.subs(vals)), _num(q.subs(vals))
        except (TypeError, ValueError, OverflowError):
            continue
        if not (math.isfinite(abs(a)) and math.isfinite(abs(b))):
            continue
        ok_any = True
        if abs(a - b) > tol * max(1.0, abs(a)):
            return False
    return ok_any


def param_equal(spec_p, p, q, vseed, exact=True):
    """spec_p: parameter spec; p: built original; q: reloaded. exact=False: p went through a
    sympy Float already (second trip), where the statement promises 1e-12 relative."""
    if not cgen.is_symbolic(spec_p):
        if isinstance(spec_p, list):  # a Python complex (on a second trip: the sympy number it was reloaded as)
            try:
                if isinstance(q, sympy.Basic) and q.free_symbols:
                    return False, "complex number reloaded as an expression with symbols"
                z, zp = complex(q), complex(p)
            except (TypeError, ValueError):
                return False, f"Python complex {p!r} reloaded as {q!r}"
            if not exact:
                return abs(z - zp) <= 1e-12 * abs(zp), f"complex number {p!r} reloaded as {q!r} on the second trip"
            return (z == zp), f"Python complex {p!r} reloaded as {q!r}"
        try:
            if not exact and not (isinstance(q, sympy.Basic) and q.free_symbols):
                return abs(float(q) - float(p)) <= 1e-12 * abs(float(p)), f"number {p!r} reloaded as {q!r} on the second trip"
            if isinstance(q, sympy.Basic) and q.free_symbols:
                return False, "number reloaded as an expression with symbols"
            return (float(q) == float(p)), f"Python number {p!r} reloaded as {q!r}"
        except (TypeError, ValueError):
            return False, f"Python number {p!r} reloaded as {q!r}"
    if isinstance(p, sympy.Symbol):
        return (isinstance(q, sympy.Symbol) and q == p), f"bare symbol {p} reloaded as {q!r} ({type(q).__name__})"
    pf = set(getattr(p, "free_symbols", set()))
    qf = set(getattr(q, "free_symbols", set())) if isinstance(q, sympy.Basic) else set()
    if pf != qf:
        return False, f"expression {p} reloaded with symbols {sorted(map(str, qf))}"
    if tree_equal(p, q):
        return True, ""
    return numeric_equal(p, q, vseed), f"expression {p} reloaded as {q}"


def representable(p):
    return not isinstance(p, sympy.Basic) or all(sympy.Float(str(f)) == f for f in p.atoms(sympy.Float))


def defs_equal(d1, d2, vseed):
    if d1.gate_name != d2.gate_name:
        return "gate_name"
    if tuple(d1.params_ordering) != tuple(d2.params_ordering):
        return "params_ordering"
    if d1.matrix.shape != d2.matrix.shape:
        return "matrix shape"
    for a, b in zip(d1.matrix, d2.matrix):
        if not (tree_equal(a, b) or numeric_equal(a, b, vseed)):
            return f"matrix entry {a} vs {b}"
    return None


def compare_circuits(spec, c, c2, exact=True):
    """Structural comparison of the original and the reloaded circuit."""
    require(c2.n_qubits == c.n_qubits, lambda: f"width {c.n_qubits} reloaded as {c2.n_qubits}")
    require(len(c2.operations) == len(c.operations), lambda: f"{len(c.operations)} operations reloaded as {len(c2.operations)}")
    for i, (ospec, o, o2) in enumerate(zip(spec["ops"], c.operations, c2.operations)):
        require(tuple(o2.qubit_indices) == tuple(o.qubit_indices),
                lambda: f"op {i}: qubit indices {o.qubit_indices} reloaded as {o2.qubit_indices!r}")
        f1, f2 = fingerprint(o.gate), fingerprint(o2.gate)
        require(f1 == f2, lambda: f"op {i}: gate structure {f1} reloaded as {f2}")
        require(len(o.gate.params) == len(o2.gate.params), lambda: f"op {i}: parameter count changed")
        for ps, p, q in zip(ospec["p"], o.gate.params, o2.gate.params):
            ok, why = param_equal(ps, p, q, spec["vseed"], exact)
            require(ok, lambda: f"op {i}: {why}")
        b1, b2 = innermost(o.gate), innermost(o2.gate)
        if ospec["g"] in ("custom", "customsym"):
            bad = defs_equal(b1.matrix_factory.gate_definition, b2.matrix_factory.gate_definition, spec["vseed"])
            require(bad is None, lambda: f"op {i}: custom gate definition differs in {bad}")
        require(set(o.gate.free_symbols) == set(o2.gate.free_symbols) and len(list(o.gate.free_symbols)) == len(list(o2.gate.free_symbols)),
                lambda: f"op {i}: gate free symbols {o.gate.free_symbols} reloaded as {o2.gate.free_symbols}")
    require(set(c.free_symbols) == set(c2.free_symbols) and len(list(c.free_symbols)) == len(list(c2.free_symbols)), lambda: f"free symbols {c.free_symbols} reloaded as {c2.free_symbols}")
    if all(representable(p) for o in c.operations for p in o.gate.params):
        eq = must(lambda: c == c2, "circuit ==")
        require(eq is True, "reloaded circuit does not compare equal although all parameters are exactly representable")


def classes_of(spec):
    cl = set()
    names = set()
    for o in spec["ops"]:
        mods = o.get("mods", [])
        kinds = [m[0] for m in mods]
        if len(mods) >= 2:
            cl.add("depth>=2")
        if len(mods) >= 3:
            cl.add("depth>=3")
        if o["g"] in ("custom", "customsym"):
            cl.add("custom")
            if mods:
                cl.add("custom_under_wrapper")
        if o["g"] == "customsym" and set(o["f"]) & set(cgen.SHADOW_NAMES):
            cl.add("formal_shadows_sympy")
        for k in kinds:
            cl.add("mod:" + k)
        if any(m[0] == "pow" and float(m[1]) != int(m[1]) for m in mods):
            cl.add("fractional_power")
        syms = []
        for p in o["p"]:
            if cgen.is_symbolic(p):
                cgen.expr_symbols(p, syms)
                cl.add("bare_symbol" if p[0] in ("sym", "idx") else "expression")
            elif isinstance(p, float):
                cl.add("float_param")
            elif isinstance(p, list):
                cl.add("complex_param")
        if o.get("raw"):
            cl.add("raw_wrapper_classes")
        names |= set(syms)
        if any("[" in s for s in syms):
            cl.add("indexed_symbol")
    if len(names) >= 2 and names & set(cgen.SHADOW_NAMES):
        cl.add("shadowing_symbol")
    if not spec["ops"]:
        cl.add("empty")
    used = {q for o in spec["ops"] for q in o["q"]}
    if spec["ops"] and len(used) < cgen.circuit_width(spec):
        cl.add("idle")
    return cl


def _nontrivial(spec):
    return bool(classes_of(spec) & {"depth>=2", "custom_under_wrapper", "shadowing_symbol", "indexed_symbol"})


def _build(spec):
    from orquestra.quantum.circuits import Circuit

    if not spec["ops"]:
        return Circuit([], spec["width"])
    return cgen.build_circuit(spec)


# ---------------------------------------------------------------- sub-checks


def o_dict(spec):
    from orquestra.quantum.circuits import circuit_from_dict, to_dict

    c = _build(spec)
    d = must(lambda: to_dict(c), "to_dict")
    txt = must(lambda: json.dumps(d), "json.dumps(to_dict)")
    c2 = must(lambda: circuit_from_dict(json.loads(txt)), "circuit_from_dict")
    compare_circuits(spec, c, c2)
    # a second trip is a fixed point of the text form
    txt2 = json.dumps(must(lambda: to_dict(c2), "to_dict (2nd)"))
    c3 = must(lambda: circuit_from_dict(json.loads(txt2)), "circuit_from_dict (2nd)")
    compare_circuits(spec, c2, c3, exact=False)
    return {"classes": classes_of(spec)}


@st.composite
def file_cases(draw, tier):
    k = draw(st.integers(0, 3))
    circuits = [draw(serde_circuit(tier)) for _ in range(k)]
    if draw(st.booleans()):
        # circuits of one list may each define a gate of the same name differently
        for cspec in circuits:
            first = next((o for o in cspec["ops"] if o["g"] in ("custom", "customsym")), None)
            if first is None:
                continue
            ident = {kk: first[kk] for kk in ("g", "t", "f", "k", "mseed") if kk in first}
            for o in cspec["ops"]:
                if all(o.get(kk) == vv for kk, vv in ident.items()):
                    o["name"] = "shared_gate"
    return {"circuits": circuits,
            "single": draw(serde_circuit(tier)),
            "via": draw(st.sampled_from(["path", "stringio", "fileobj"]))}


def _save_load(save, load, obj, via):
    if via == "stringio":
        buf = io.StringIO()
        must(lambda: save(obj, buf), "save to StringIO")
        buf.seek(0)
        return must(lambda: load(buf), "load from StringIO")
    with tempfile.TemporaryDirectory() as d:
        path = os.path.join(d, "c.json")
        if via == "path":
            must(lambda: save(obj, path), "save to path")
            must(lambda: json.load(open(path)), "reading the saved file as JSON text")
            return must(lambda: load(path), "load from path")
        with open(path, "w") as f:
            must(lambda: save(obj, f), "save to file object")
        with open(path) as f:
            return must(lambda: load(f), "load from file object")


def o_file(spec):
    from orquestra.quantum.circuits import (load_circuit, load_circuitset, save_circuit,
                                            save_circuitset, to_dict, circuitset_from_dict)

    c = _build(spec["single"])
    c2 = _save_load(save_circuit, load_circuit, c, spec["via"])
    compare_circuits(spec["single"], c, c2)
    cs = [_build(s) for s in spec["circuits"]]
    cs2 = _save_load(save_circuitset, load_circuitset, cs, spec["via"])
    require(isinstance(cs2, list) and len(cs2) == len(cs), lambda: f"circuit list of {len(cs)} reloaded with {len(cs2)} entries")
    for s, a, b in zip(spec["circuits"], cs, cs2):
        compare_circuits(s, a, b)
    cs3 = must(lambda: circuitset_from_dict(json.loads(json.dumps(to_dict(cs)))), "circuitset dict trip")
    for s, a, b in zip(spec["circuits"], cs, cs3):
        compare_circuits(s, a, b)
    cl = set()
    for s in spec["circuits"] + [spec["single"]]:
        cl |= classes_of(s)
    names = [{o.get("name") for o in s["ops"]} for s in spec["circuits"]]
    if sum(1 for nset in names if "shared_gate" in nset) >= 2:
        cl.add("same_gate_name_in_several_circuits")
    cl.add("via:" + spec["via"])
    cl.add("list_len:%d" % len(cs))
    nt = any(_nontrivial(s) for s in spec["circuits"] + [spec["single"]])
    return {"classes": cl, "nontrivial": nt}


# --- meaning: matrices at a random assignment (forked: sympy may not terminate)


def _risky(o):
    return any(m[0] == "exp" or (m[0] == "pow" and float(m[1]) != int(m[1])) for m in o.get("mods", []))


@st.composite
def meaning_cases(draw, tier):
    spec = draw(serde_circuit(tier))
    keep = []
    for o in spec["ops"]:
        heavy = [m for m in o["mods"] if m[0] == "exp" or (m[0] == "pow" and float(m[1]) != int(m[1]))]
        if len(heavy) > 1:
            continue
        if heavy and o["g"] in cgen.EXP_UNFRIENDLY | {"custom", "customsym", "MS", "GPi", "GPi2", "XY"}:
            continue
        if sum(1 for m in o["mods"] if m[0] == "pow") > 1:
            continue
        keep.append(o)
    spec["ops"] = keep
    if not keep and spec["width"] is None:
        spec["width"] = spec["n"]
    return spec


def o_meaning(spec):
    from orquestra.quantum.circuits import circuit_from_dict, to_dict

    c = _build(spec)
    c2 = must(lambda: circuit_from_dict(json.loads(json.dumps(to_dict(c)))), "dict round trip")
    require(len(c2.operations) == len(c.operations), "operation count changed")
    vals = cgen.assignment_for(set(c.free_symbols) | set(c2.free_symbols), spec["vseed"])
    inconclusive = 0
    for i, (o, o2) in enumerate(zip(c.operations, c2.operations)):
        def mats():
            try:
                a = o.gate.matrix.subs(vals, simultaneous=True) if vals else o.gate.matrix
                a = ref.npm(sympy.N(a, 20))
            except Exception:  # noqa: BLE001 - the original gate has no matrix here (e.g. inverse of a singular custom matrix): nothing to compare
                return None, None
            b = o2.gate.matrix.subs(vals, simultaneous=True) if vals else o2.gate.matrix
            return a, ref.npm(sympy.N(b, 20))
        if _risky(spec["ops"][i]):
            kind, out = forked(mats, 6.0)
            if kind != "ok":
                inconclusive += 1
                continue
            A, B = out
            if A is None:
                inconclusive += 1
                continue
        else:
            A, B = must(mats, "gate matrix of the reloaded circuit")
        if A is None:
            inconclusive += 1
            continue
        if not (np.all(np.isfinite(A)) and np.all(np.isfinite(B))):
            inconclusive += 1
            continue
        require(ref.close(B, A, 1e-9), lambda: f"op {i}: matrix differs after reload at {vals}, max|d|={ref.maxdiff(A, B):.3g}")
    if spec["ops"] and inconclusive == len(spec["ops"]):
        return {"inconclusive": "sympy_backend"}
    cl = classes_of(spec)
    if inconclusive:
        cl.add("partly_inconclusive")
    return {"classes": cl}


# --- exactness of Python float parameters (what exposed F14)


@st.composite
def float_cases(draw, tier):
    xs = draw(st.lists(cgen.python_numbers(), min_size=1, max_size=6))
    return {"xs": xs, "gate": draw(st.sampled_from(["RX", "PHASE", "CPHASE", "U3", "MS", "Delay", "cs"])),
            "mods": draw(st.sampled_from([[], [["dag"]], [["c", 1]], [["pow", 2]], [["exp"]], [["dag"], ["c", 2]]]))}


def o_float(spec):
    from orquestra.quantum.circuits import Circuit, circuit_from_dict, to_dict

    ops = []
    for x in spec["xs"]:
        if spec["gate"] == "cs":
            g = {"g": "customsym", "t": "ph2", "f": ["gamma", "S"], "p": [x, -x]}
        else:
            npar = cgen.TABLE[spec["gate"]][1]
            g = {"g": spec["gate"], "p": [x] * npar}
        g["mods"] = spec["mods"]
        gate = cgen.build_gate(g)
        ops.append((g, gate(*range(gate.num_qubits))))
    c = Circuit([o for _, o in ops])
    c2 = must(lambda: circuit_from_dict(json.loads(json.dumps(to_dict(c)))), "dict round trip")
    for (g, o), o2 in zip(ops, c2.operations):
        for p, q in zip(g["p"], o2.gate.params):
            require(float(q) == p and not getattr(q, "free_symbols", None), lambda: f"float parameter {p!r} reloaded as {q!r} (diff {float(q) - p:.3g})")
    require(must(lambda: c == c2, "=="), "circuit with Python-number parameters does not compare equal after reload")
    nt = any(isinstance(x, float) and len(repr(x)) >= 17 for x in spec["xs"])
    return {"classes": ["long_repr"] if nt else [], "nontrivial": nt}


# --- open findings: probes


@st.composite
def k3_cases(draw, tier):
    base = draw(st.sampled_from(["b", "x", "th"]))
    return {"base": base, "i": draw(st.integers(0, 12)), "gate": draw(st.sampled_from(["U3", "MS", "RX"]))}


def o_k3(spec):
    from orquestra.quantum.circuits import Circuit, circuit_from_dict, to_dict, U3, MS, RX

    s, si = sympy.Symbol(spec["base"]), sympy.Symbol("%s[%d]" % (spec["base"], spec["i"]))
    g = {"U3": lambda: U3(s, si, 0.5), "MS": lambda: MS(si, s), "RX": lambda: RX(s + si)}[spec["gate"]]()
    c = Circuit([g(*range(g.num_qubits))])
    txt = json.dumps(must(lambda: to_dict(c), "to_dict"))
    if not is_open("K3"):
        c2 = must(lambda: circuit_from_dict(json.loads(txt)), "circuit_from_dict")
        require(c2 == c and list(c2.free_symbols) == list(c.free_symbols), "symbol and indexed symbol of the same base not preserved")
        return {}
    try:
        c2 = circuit_from_dict(json.loads(txt))
    except TypeError:
        return {"known": "K3"}
    # no longer raises the recorded TypeError: it must then be right
    require(c2 == c and list(c2.free_symbols) == list(c.free_symbols),
            "K3 class: load no longer raises TypeError but the reloaded circuit differs")
    return {}


@st.composite
def k4_cases(draw, tier):
    return {"name": draw(st.sampled_from(["Integer", "Float"])), "coef": draw(st.sampled_from([2, 0.5, 3, 1.25])),
            "gate": draw(st.sampled_from(["RX", "PHASE", "ZZ"]))}


def o_k4(spec):
    from orquestra.quantum.circuits import Circuit, circuit_from_dict, to_dict, builtin_gate_by_name

    s = sympy.Symbol(spec["name"])
    needs = (spec["name"] == "Integer" and isinstance(spec["coef"], int)) or (spec["name"] == "Float" and isinstance(spec["coef"], float))
    g = builtin_gate_by_name(spec["gate"])(spec["coef"] * s)
    c = Circuit([g(*range(g.num_qubits))])
    txt = json.dumps(must(lambda: to_dict(c), "to_dict"))
    if not is_open("K4") or not needs:
        c2 = must(lambda: circuit_from_dict(json.loads(txt)), "circuit_from_dict")
        require(c2 == c, "circuit with a symbol named like a sympy number class not preserved")
        return {}
    try:
        c2 = circuit_from_dict(json.loads(txt))
    except TypeError:
        return {"known": "K4"}
    require(c2 == c, "K4 class: load no longer raises TypeError but the reloaded circuit differs")
    return {}


SUBCHECKS = [
    SubCheck("dict_json", o_dict, strategy=serde_circuit, nontrivial=_nontrivial, examples=(500, 2500), shards=(5, 16),
             rule="to_dict -> JSON text -> circuit_from_dict (twice): structure, parameters, definitions, free symbols, =="),
    SubCheck("file", o_file, strategy=file_cases, examples=(250, 1000), shards=(3, 8),
             rule="save_circuit/load_circuit and save_circuitset/load_circuitset via path, open file and StringIO"),
    SubCheck("meaning", o_meaning, strategy=meaning_cases, nontrivial=_nontrivial, examples=(200, 800), shards=(4, 16),
             fork_timeout=40, rule="gate matrices of original and reloaded circuit agree at a random symbol assignment"),
    SubCheck("float_exact", o_float, strategy=float_cases, examples=(600, 5000), shards=(2, 8),
             rule="Python float parameters reload bit-for-bit; non-trivial = a float with >= 17 significant characters"),
    SubCheck("probe_K3", o_k3, strategy=k3_cases, examples=(30, 100), shards=(1, 1),
             rule="open finding K3: symbol b next to b[i] in one gate"),
    SubCheck("probe_K4", o_k4, strategy=k4_cases, examples=(20, 60), shards=(1, 1),
             rule="open finding K4: symbols named Integer / Float next to a number of that kind"),
]
SUBCHECKS[0].expected_classes = ["depth>=2", "depth>=3", "custom_under_wrapper", "shadowing_symbol", "indexed_symbol",
                                 "fractional_power", "mod:exp", "mod:c", "mod:dag", "mod:pow", "empty", "idle", "formal_shadows_sympy"]
