"""C11 - operators and result artefacts survive dict, file and text round trips."""
import io
import json
import os
import tempfile

import numpy as np
from hypothesis import strategies as st

from vlib import pgen
from vlib.harness import SubCheck, must, require

PROPERTY_ID = "C11"
TECHNIQUE = 'round-trip property-based testing (Hypothesis) over dict / JSON text / files / printed text; coverage-guided fuzzing (Atheris) of print->parse in the thorough tier'
RULE = (
    "Pauli terms / sums (simplified and unsimplified) with int, float and complex coefficients "
    "(|c| from 1e-7 to 1e22, negative, -0.0, zero imaginary part, exponent notation), constants, the "
    "empty sum, qubit indices up to 4 digits; operator lists; measurement lists (incl. empty), "
    "ExpectationValues (real/complex, 0/1/3 correlation and covariance frames), Parities, "
    "ValueEstimate (precision None/float), plain lists, circuit layers / connectivity / ordering, "
    "measurement-count estimates (with and without frame_meas). Paths: dict, rapidjson and stdlib JSON "
    "text, save/load with a str path and an open file, print -> parse. Oracle: canonical Pauli form "
    "(exact for simplified operators, 1e-8 otherwise), field-wise np.array_equal for artefacts. "
    "Non-trivial: a constant term, or a complex / exponent-notation coefficient, or an artefact with "
    "an absent optional part."
)
ASSUMPTIONS = [
    "size-0 arrays are compared by size, not shape (JSON [] carries no shape); frames are generated for >= 1 operators",
    "artefact values are finite; ExpectationValues / Parities are compared field-wise with np.array_equal (their own == is ill-defined on arrays)",
    "'simplified' = distinct operator strings and |coefficient| > 1e-6 (well above the library's 1e-8 zero tolerance)",
]

BIG = [1e16, -2.5e17, 1e22, 3.3e-7, -1e-5, 123456789.125, 1e15, -0.0]


def _coef():
    part = st.one_of(st.floats(-2, 2, allow_nan=False).filter(lambda x: x == 0 or abs(x) >= 1e-3),
                     st.sampled_from([0.0, -0.0, 1.0, 1e-5, 1e20, -3e-7, 2.5e16]))
    return st.one_of(
        st.integers(-3, 3).filter(lambda k: k != 0),
        st.builds(lambda s, e, m: s * m * 10.0 ** e, st.sampled_from([-1, 1]), st.integers(-6, 21), st.floats(1, 9.99, allow_nan=False)),
        st.sampled_from(BIG[:-1]),
        st.builds(lambda a, b: ["c", a, b], part, part).filter(lambda c: abs(complex(c[1], c[2])) > 1e-6),
    )


@st.composite
def op_cases(draw, tier):
    n_terms = draw(st.integers(0, 5))
    idx_pool = [0, 1, 2, 3, 7, 12, 345, 1002]
    keys = draw(st.lists(st.lists(st.sampled_from(idx_pool), unique=True, max_size=3).map(sorted), min_size=n_terms, max_size=n_terms))
    simplified = draw(st.booleans())
    terms = []
    seen = set()
    for qs in keys:
        ops = [[q, draw(st.sampled_from("XYZ"))] for q in qs]
        k = tuple(map(tuple, ops))
        if simplified and k in seen:
            continue
        seen.add(k)
        terms.append({"ops": ops, "c": draw(_coef())})
    if not simplified and terms:
        if draw(st.booleans()):
            t = dict(draw(st.sampled_from(terms)))
            t["c"] = draw(_coef())
            terms.append(t)
        if draw(st.booleans()):
            terms.append({"ops": draw(st.sampled_from(terms))["ops"], "c": draw(st.sampled_from([0, 0.0, -0.0]))})
    as_term = bool(terms) and len(terms) == 1 and draw(st.booleans())
    others = draw(st.lists(pgen.sums(max_q=4, max_terms=3, zero=False), max_size=3))
    return {"terms": terms, "simplified": simplified, "as_term": as_term, "set": others}


def _canon(op):
    return pgen.canon_of(op)


def _same(ref_canon, got, mode, what):
    """mode: True/"exact" = same strings and bit-identical coefficient parts (dict / file trips of
    simplified operators); "text" = same matrix after dropping zero terms, coefficients to 1e-12
    relative (print -> parse); False = same matrix to the library's 1e-8 zero tolerance."""
    g = _canon(got)
    if mode is True or mode == "exact":
        require(set(g) == set(ref_canon), lambda: f"{what}: operator strings {sorted(g)} != {sorted(ref_canon)}")
        for k, v in ref_canon.items():
            require(g[k].real == v.real and g[k].imag == v.imag, lambda: f"{what}: coefficient of {k} is {g[k]!r}, expected exactly {v!r}")
    elif mode == "text":
        a = {k: v for k, v in ref_canon.items() if v != 0}
        b = {k: v for k, v in g.items() if v != 0}
        require(set(a) == set(b), lambda: f"{what}: operator strings {sorted(b)} != {sorted(a)}")
        for k, v in a.items():
            require(abs(b[k] - v) <= 1e-12 * abs(v), lambda: f"{what}: coefficient of {k} is {b[k]!r}, expected {v!r}")
    else:
        d = pgen.canon_diff(ref_canon, g)
        big = max([abs(v) for v in ref_canon.values()] or [0.0])
        require(d <= 1e-8 + 1e-12 * big, lambda: f"{what}: denoted operator differs by {d:.3g}")


def _roundtrip_file(save, load, obj, d, name="o.json"):
    path = os.path.join(d, name)
    must(lambda: save(obj, path), "save")
    must(lambda: json.load(open(path)), "reading the saved file as JSON text")
    a = must(lambda: load(path), "load(path)")
    with open(path) as f:
        b = must(lambda: load(f), "load(open file)")
    return a, b


def o_ops(spec):
    import rapidjson

    from orquestra.quantum.operators import (PauliSum, PauliTerm, convert_dict_to_op, convert_op_to_dict,
                                             load_operator, load_operator_set, save_operator,
                                             save_operator_set)

    terms = [pgen.build_term(t) for t in spec["terms"]]
    op = terms[0] if spec["as_term"] else PauliSum(terms)
    can = {}
    for t in spec["terms"]:
        can = pgen.canon_add(can, pgen.canon_term(t))
    exact = spec["simplified"]
    if not exact:
        can = {k: v for k, v in can.items()}
    d = must(lambda: convert_op_to_dict(op), "convert_op_to_dict")
    _same(can, must(lambda: convert_dict_to_op(d), "convert_dict_to_op"), exact, "dict")
    _same(can, must(lambda: convert_dict_to_op(rapidjson.loads(rapidjson.dumps(d))), "rapidjson trip"), exact, "rapidjson text")
    _same(can, must(lambda: convert_dict_to_op(json.loads(json.dumps(d))), "json trip"), exact, "json text")
    with tempfile.TemporaryDirectory() as tmp:
        a, b = _roundtrip_file(save_operator, load_operator, op, tmp)
        _same(can, a, exact, "file (path)")
        _same(can, b, exact, "file (open file)")
        others = [pgen.build_sum(s) for s in spec["set"]]
        ops = [op if isinstance(op, PauliSum) else PauliSum([op])] + others
        la, lb = _roundtrip_file(save_operator_set, load_operator_set, ops, tmp, "set.json")
        for lst in (la, lb):
            require(len(lst) == len(ops), lambda: f"operator list of {len(ops)} reloaded with {len(lst)} entries")
            _same(can, lst[0], exact, "operator list[0]")
            for s, got in zip(spec["set"], lst[1:]):
                _same(pgen.canon_sum(s), got, False, "operator list entry")
    # print -> parse
    text = str(op)
    back = must(lambda: PauliTerm(text) if isinstance(op, PauliTerm) else PauliSum(text), f"parsing the printed text {text!r}")
    _same(can, back, "text" if exact else False, f"print/parse of {text!r}")
    for t, ts in zip(terms, spec["terms"]):
        bt = must(lambda: PauliTerm(str(t)), f"parsing the printed term {str(t)!r}")
        _same(pgen.canon_term(ts), bt, "text", f"print/parse of term {str(t)!r}")
    cl = []
    if any(not t["ops"] for t in spec["terms"]):
        cl.append("constant_term")
    if not spec["terms"]:
        cl.append("empty_sum")
    if any(isinstance(t["c"], list) for t in spec["terms"]):
        cl.append("complex_coefficient")
    if any("e" in str(pgen.coef(t["c"])) for t in spec["terms"]):
        cl.append("exponent_notation")
    if any("e+" in str(pgen.coef(t["c"])) for t in spec["terms"]):
        cl.append("positive_exponent")
    if any(q >= 10 for t in spec["terms"] for q, _ in t["ops"]):
        cl.append("multi_digit_index")
    if not exact:
        cl.append("unsimplified")
    return {"classes": cl, "nontrivial": bool(set(cl) & {"constant_term", "complex_coefficient", "exponent_notation"})}


# ---------------------------------------------------------------- artefacts


def _arr(draw, shape, complex_, ints=False):
    n = int(np.prod(shape))
    if ints:
        vals = draw(st.lists(st.integers(0, 1000), min_size=n, max_size=n))
        return np.array(vals, dtype=int).reshape(shape).tolist()
    f = st.one_of(st.floats(-1e3, 1e3, allow_nan=False), st.sampled_from([0.0, 1.0, -1.0, 1e-12, 0.1]))
    re = draw(st.lists(f, min_size=n, max_size=n))
    if complex_:
        im = draw(st.lists(f, min_size=n, max_size=n))
        return [[a, b] for a, b in zip(re, im)], list(shape)
    return re, list(shape)


@st.composite
def art_cases(draw, tier):
    n = draw(st.integers(1, 5))
    bits = draw(st.lists(st.lists(st.integers(0, 1), min_size=n, max_size=n), max_size=8))
    k = draw(st.integers(1, 4))
    cplx = draw(st.booleans())
    ev = {"k": k, "complex": cplx, "values": _arr(draw, (k,), cplx),
          "corr": [_arr(draw, (k, k), cplx) for _ in range(draw(st.sampled_from([0, 1, 3])))] if draw(st.booleans()) else None,
          "cov": [_arr(draw, (k, k), draw(st.booleans())) for _ in range(draw(st.sampled_from([0, 1, 3])))] if draw(st.booleans()) else None}
    par = {"k": k, "values": _arr(draw, (k, 2), False, ints=True),
           "corr": [_arr(draw, (k, k, 2), False, ints=True) for _ in range(draw(st.sampled_from([0, 1, 2])))] if draw(st.booleans()) else None}
    ve = {"value": draw(st.floats(-1e6, 1e6, allow_nan=False)), "precision": draw(st.one_of(st.none(), st.floats(0, 10, allow_nan=False)))}
    scal = st.one_of(st.integers(-5, 5), st.floats(-10, 10, allow_nan=False), st.text("abc01", max_size=4), st.booleans(), st.none())
    lst = draw(st.lists(st.one_of(scal, st.lists(scal, max_size=3)), max_size=6))
    layers = draw(st.lists(st.lists(st.lists(st.integers(0, 9), min_size=2, max_size=3), max_size=4), max_size=4))
    conn = draw(st.lists(st.lists(st.integers(0, 9), min_size=2, max_size=3), max_size=6))
    ordering = draw(st.permutations(list(range(draw(st.integers(0, 6))))))
    nmeas = {"nmeas": draw(st.floats(0, 1e9, allow_nan=False)), "nterms": draw(st.integers(0, 50)),
             "frame": draw(st.one_of(st.none(), st.lists(st.floats(0, 1e6, allow_nan=False), min_size=1, max_size=5)))}
    return {"n": n, "bits": bits, "ev": ev, "par": par, "ve": ve, "list": lst, "layers": layers,
            "conn": conn, "ordering": list(ordering), "nmeas": nmeas}


def _mk(a):
    data, shape = a
    if data and isinstance(data[0], list):
        return np.array([complex(x, y) for x, y in data]).reshape(shape)
    return np.array(data, dtype=float).reshape(shape)


def _arr_eq(a, b):
    a, b = np.asarray(a), np.asarray(b)
    if a.size == 0 and b.size == 0:
        return True
    return a.shape == b.shape and np.array_equal(a, b)


def _frames_eq(orig, got, what):
    if not orig:
        require(got is None or len(got) == 0, lambda: f"{what}: absent frames reloaded as {got!r}")
        return
    require(got is not None and len(got) == len(orig), lambda: f"{what}: {len(orig)} frames reloaded as {None if got is None else len(got)}")
    for i, (x, y) in enumerate(zip(orig, got)):
        require(_arr_eq(x, y), lambda: f"{what}: frame {i} differs after reload")


def o_art(spec):
    from orquestra.quantum.circuits.layouts import (CircuitConnectivity, CircuitLayers, load_circuit_connectivity,
                                                    load_circuit_layers, load_circuit_ordering,
                                                    save_circuit_connectivity, save_circuit_layers,
                                                    save_circuit_ordering)
    from orquestra.quantum.measurements import (ExpectationValues, Measurements, Parities, load_expectation_values,
                                                load_parities, save_expectation_values, save_parities)
    from orquestra.quantum.utils import (ValueEstimate, load_list, load_nmeas_estimate, load_value_estimate,
                                         save_list, save_nmeas_estimate, save_value_estimate)

    cl = []
    with tempfile.TemporaryDirectory() as tmp:
        # measurements
        shots = [tuple(b) for b in spec["bits"]]
        m = Measurements(list(shots))
        for got in _roundtrip_file(lambda o, p: o.save(p), Measurements.load_from_file, m, tmp, "m.json"):
            require(got.bitstrings == shots and all(isinstance(b, tuple) for b in got.bitstrings), lambda: f"measurements {shots} reloaded as {got.bitstrings}")
        if not shots:
            cl.append("empty_measurements")
        # expectation values
        e = spec["ev"]
        corr = [_mk(a) for a in e["corr"]] if e["corr"] is not None else None
        cov = [_mk(a) for a in e["cov"]] if e["cov"] is not None else None
        ev = ExpectationValues(_mk(e["values"]), corr, cov)
        for got in _roundtrip_file(save_expectation_values, load_expectation_values, ev, tmp, "ev.json"):
            require(_arr_eq(got.values, ev.values), lambda: f"expectation values {ev.values} reloaded as {got.values}")
            _frames_eq(corr, got.correlations, "correlations")
            _frames_eq(cov, got.estimator_covariances, "estimator_covariances")
        d = ExpectationValues.from_dict(json.loads(json.dumps(ev.to_dict())))
        require(_arr_eq(d.values, ev.values), "ExpectationValues dict trip changed the values")
        _frames_eq(corr, d.correlations, "correlations (dict)")
        _frames_eq(cov, d.estimator_covariances, "estimator_covariances (dict)")
        if not corr or not cov:
            cl.append("absent_frames")
        if e["complex"]:
            cl.append("complex_values")
        # parities
        p = spec["par"]
        pcorr = [np.array(a) for a in p["corr"]] if p["corr"] is not None else None
        par = Parities(np.array(p["values"]), pcorr)
        for got in _roundtrip_file(save_parities, load_parities, par, tmp, "p.json"):
            require(_arr_eq(got.values, par.values), "parity values differ after reload")
            _frames_eq(pcorr, got.correlations, "parity correlations")
        # value estimate
        v = spec["ve"]
        ve = ValueEstimate(v["value"], v["precision"])
        for got in _roundtrip_file(save_value_estimate, load_value_estimate, ve, tmp, "v.json"):
            require(isinstance(got, ValueEstimate) and float(got) == float(ve) and got.precision == ve.precision,
                    lambda: f"value estimate {float(ve)!r} +- {ve.precision!r} reloaded as {float(got)!r} +- {got.precision!r}")
            require(got == ve, "reloaded ValueEstimate does not compare equal")
        if v["precision"] is None:
            cl.append("precision_none")
        # plain list
        for got in _roundtrip_file(save_list, load_list, spec["list"], tmp, "l.json"):
            require(got == spec["list"] and json.dumps(got) == json.dumps(spec["list"]), lambda: f"list {spec['list']} reloaded as {got}")
        # layers / connectivity / ordering
        layers = [[tuple(x) for x in layer] for layer in spec["layers"]]
        for got in _roundtrip_file(save_circuit_layers, load_circuit_layers, CircuitLayers(layers), tmp, "cl.json"):
            require(got.layers == layers, lambda: f"layers {layers} reloaded as {got.layers}")
        conn = [tuple(x) for x in spec["conn"]]
        for got in _roundtrip_file(save_circuit_connectivity, load_circuit_connectivity, CircuitConnectivity(conn), tmp, "cc.json"):
            require(got.connectivity == conn, lambda: f"connectivity {conn} reloaded as {got.connectivity}")
        for got in _roundtrip_file(save_circuit_ordering, load_circuit_ordering, spec["ordering"], tmp, "co.json"):
            require(got == spec["ordering"], lambda: f"ordering {spec['ordering']} reloaded as {got}")
        # nmeas estimate (path only: the loader takes a file name)
        nm = spec["nmeas"]
        path = os.path.join(tmp, "n.json")
        frame = np.array(nm["frame"]) if nm["frame"] is not None else None
        must(lambda: save_nmeas_estimate(nm["nmeas"], nm["nterms"], path, frame), "save_nmeas_estimate")
        K, nt, fr = must(lambda: load_nmeas_estimate(path), "load_nmeas_estimate")
        require(K == nm["nmeas"] and nt == nm["nterms"], lambda: f"nmeas estimate ({nm['nmeas']}, {nm['nterms']}) reloaded as ({K}, {nt})")
        if frame is None:
            require(fr is None, lambda: f"absent frame_meas reloaded as {fr!r}")
            cl.append("frame_meas_none")
        else:
            require(fr is not None and _arr_eq(fr, frame), lambda: f"frame_meas {frame} reloaded as {fr}")
    return {"classes": cl, "nontrivial": bool(set(cl) & {"absent_frames", "precision_none", "frame_meas_none", "empty_measurements"})}


SUBCHECKS = [
    SubCheck("operators", o_ops, strategy=op_cases, examples=(500, 3000), shards=(6, 16),
             rule="Pauli terms / sums / lists: dict, rapidjson / json text, save/load (path and open file), print/parse"),
    SubCheck("artefacts", o_art, strategy=art_cases, examples=(300, 1500), shards=(4, 12),
             rule="measurements, expectation values, parities, value estimates, lists, layers, connectivity, ordering, nmeas estimates"),
]


def _campaigns(tier):
    import os

    seed = int(os.environ.get("VERIF_SEED_EFFECTIVE", "1"))
    for target, runs in (("pauli_struct", 150000), ("pauli_text", 300000)):
        for corpus in ("empty", "seeded"):
            yield {"target": target, "runs": runs, "corpus": corpus, "seed": seed, "max_len": 128}


def o_fuzz(spec):
    from vlib.fuzz import run_campaign

    return run_campaign(spec)


SUBCHECKS.append(SubCheck("atheris_print_parse", o_fuzz, enumerate=_campaigns, shards=(1, 4), tiers=("thorough",), timeout=(600, 3000),
                          rule="coverage-guided (Atheris/libFuzzer) campaigns, empty and seeded corpus: bytes -> structured operator -> print -> parse -> "
                               "canonical compare; bytes -> token text -> parse(print(parse(text))) == parse(text) on accepted text"))
SUBCHECKS[0].expected_classes = ["constant_term", "empty_sum", "complex_coefficient", "exponent_notation", "positive_exponent", "multi_digit_index", "unsimplified"]
SUBCHECKS[1].expected_classes = ["absent_frames", "precision_none", "frame_meas_none", "empty_measurements", "complex_values"]
