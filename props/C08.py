"""C08 - circuit-level constructions: inverse, controlled, gate layers, ancillas."""
import warnings

import numpy as np
from hypothesis import strategies as st

from vlib import cgen, ref
from vlib.harness import SubCheck, must, require

PROPERTY_ID = "C08"
TECHNIQUE = 'property-based testing (Hypothesis) against a numpy reference (adjoint, block structure for every control position, layer/ancilla bookkeeping)'
RULE = (
    "Gate circuits as in C01 (n<=4, <=5 ops quick; built-ins, custom unitaries, dagger/controlled/"
    "integer-power wrappers, exp wrappers for the adjoint law only), every control position 0..n, "
    "qubit collections with duplicates in arbitrary order, gate factories with 0..3 parameters and "
    "Python-float parameter rows, ancilla counts 0..3. Oracle: numpy reference (adjoint, block "
    "semantics of a control via projector embedding, Kronecker padding), structural laws for layers. "
    "Non-trivial: circuit with a multi-qubit gate and a control position strictly inside, or a qubit "
    "collection with a duplicate, or >= 2 ops for inverse/ancilla."
)
ASSUMPTIONS = [
    "Circuit.controlled width inference is not asserted (the statement does not claim it); the result is compared on the register padded to max(width, n+1)",
    "inverse of circuits containing non-integer powers is outside this check (open finding K2, probed in C07)",
    "c + inverse == identity is asserted only for circuits whose gates are all unitary (no exp wrapper)",
]


def own_matrix(c, n):
    U = np.eye(2 ** n, dtype=complex)
    for op in c.operations:
        q = tuple(op.qubit_indices)
        require(len(set(q)) == len(q) and len(q) == op.gate.num_qubits and all(0 <= i < n for i in q), lambda: f"operation {op} has invalid qubit indices {q} on {n} qubits")
        U = ref.embed(ref.npm(op.gate.matrix), op.qubit_indices, n) @ U
    return U


@st.composite
def inv_cases(draw, tier):
    spec = draw(cgen.circuit_specs(max_n=4 if tier == "quick" else 5, max_ops=5 if tier == "quick" else 9))
    # optionally wrap one friendly base in exp (adjoint law only)
    if draw(st.integers(0, 4)) == 0:
        cands = [o for o in spec["ops"] if o["g"] in cgen.EXACT_ENTRY and not o["mods"]]
        if cands:
            o = cands[0]
            o["mods"] = [["exp"]] + ([["dag"]] if draw(st.booleans()) else [])
    return spec


def _has_exp(spec):
    return any(m[0] == "exp" for o in spec["ops"] for m in o["mods"])


def o_inverse(spec):
    c = cgen.build_circuit(spec)
    n = cgen.circuit_width(spec)
    U = own_matrix(c, n)
    inv = must(c.inverse, "inverse")
    require(inv.n_qubits == n, lambda: f"inverse has width {inv.n_qubits}, circuit {n}")
    Ui = own_matrix(inv, n)
    require(ref.close(Ui, U.conj().T), lambda: f"inverse matrix is not the conjugate transpose, max|d|={ref.maxdiff(Ui, U.conj().T):.3g}")
    Ul = ref.npm(must(inv.to_unitary, "inverse.to_unitary"))
    require(ref.close(Ul, U.conj().T), lambda: f"inverse.to_unitary is not the conjugate transpose, max|d|={ref.maxdiff(Ul, U.conj().T):.3g}")
    back = must(inv.inverse, "inverse of inverse")
    Ub = own_matrix(back, n)
    require(back.n_qubits == n and ref.close(Ub, U), lambda: f"double inverse does not act as the original, max|d|={ref.maxdiff(Ub, U):.3g}")
    if not _has_exp(spec):
        s = must(lambda: c + inv, "circuit + inverse")
        Us = ref.npm(must(s.to_unitary, "to_unitary of circuit + inverse"))
        require(s.n_qubits == n and ref.close(Us, np.eye(2 ** n)), lambda: f"circuit + inverse is not the identity, max|d|={ref.maxdiff(Us, np.eye(2 ** n)):.3g}")
    cl = set(cgen.circuit_classes(spec))
    if _has_exp(spec):
        cl.add("exp_wrapper")
    return {"classes": cl, "nontrivial": len(spec["ops"]) >= 2}


# ---------------------------------------------------------------- inverse of circuits that still carry free symbols


@st.composite
def inv_sym_cases(draw, tier):
    names = [g for g in cgen.NAMES if cgen.TABLE[g][1] and g != "U3"] + ["CNOT", "H", "S"]
    spec = draw(cgen.circuit_specs(max_n=3, max_ops=3, maxq=2, int_powers=(2,), names=names, custom=False, mods=("dag", "c")))
    slots = [(i, j) for i, o in enumerate(spec["ops"]) if cgen.TABLE[o["g"]][1] for j in range(len(o["p"]))]
    spec["symbolised"] = [list(x) for x in (draw(st.lists(st.sampled_from(slots), unique=True, max_size=3)) if slots else [])]
    if draw(st.booleans()) or not spec["symbolised"]:
        # a user-defined gate diag(1, z): its parameter is a complex number of modulus one, not an angle
        n = cgen.circuit_width(spec)
        g = {"g": "customsym", "t": "dz", "f": ["fz"], "p": [["sym", "z0"]], "mods": draw(st.sampled_from([[], [], [["dag"]], [["c", 1]] if n >= 2 else []]))}
        perm = draw(st.permutations(list(range(n))))
        g["q"] = list(perm[: cgen.gate_arity(g)])
        spec["ops"].insert(draw(st.integers(0, len(spec["ops"]))), g)
        spec["z0"] = draw(st.floats(0.1, 6.0, allow_nan=False))
    return spec


def o_inverse_symbolic(spec):
    import cmath
    import json as _json

    import sympy

    sym = _json.loads(_json.dumps(spec))
    vals = {}
    # positions refer to the operations before the optional dz gate was inserted: address them by identity
    plain = [o for o in sym["ops"] if o["g"] != "customsym"]
    for t, (i, j) in enumerate(spec["symbolised"]):
        vals[sympy.Symbol("s%d" % t)] = sympy.Float(plain[i]["p"][j])
        plain[i]["p"][j] = ["sym", "s%d" % t]
    if "z0" in spec:
        z = cmath.exp(1j * spec["z0"])
        vals[sympy.Symbol("z0")] = sympy.Float(z.real) + sympy.Float(z.imag) * sympy.I
    c = cgen.build_circuit(sym)
    n = cgen.circuit_width(sym)
    require(set(c.free_symbols) == set(vals), lambda: f"free symbols {c.free_symbols}, expected {sorted(map(str, vals))}")
    inv = must(c.inverse, "inverse (free symbols)")
    require(inv.n_qubits == n, lambda: f"inverse has width {inv.n_qubits}, circuit {n}")

    def num(M):
        return ref.npm(sympy.N(sympy.Matrix(M).xreplace(vals), 20))

    U = num(must(c.to_unitary, "to_unitary (free symbols)"))
    V = num(must(inv.to_unitary, "inverse.to_unitary (free symbols)"))
    require(ref.close(V, U.conj().T, 1e-8), lambda: f"inverse of a circuit with free symbols, evaluated at {dict((str(k), complex(v)) for k, v in vals.items())}: not the conjugate transpose, max|d|={ref.maxdiff(V, U.conj().T):.3g}")
    S = num(must((c + inv).to_unitary, "to_unitary of circuit + inverse"))
    require(ref.close(S, np.eye(2 ** n), 1e-8), lambda: f"circuit + inverse (free symbols) is not the identity at these values, max|d|={ref.maxdiff(S, np.eye(2 ** n)):.3g}")
    cl = set()
    if "z0" in spec:
        cl.add("non_angle_parameter")
    if spec["symbolised"]:
        cl.add("symbolic_angle")
    return {"classes": cl, "nontrivial": len(sym["ops"]) >= 2}


@st.composite
def ctl_cases(draw, tier):
    spec = draw(cgen.circuit_specs(max_n=3 if tier == "quick" else 4, max_ops=4 if tier == "quick" else 7, maxq=3))
    return spec


def o_controlled(spec):
    from orquestra.quantum.circuits import Circuit

    c = cgen.build_circuit(spec)
    n = cgen.circuit_width(spec)
    cl = set(cgen.circuit_classes(spec))
    for k in range(n + 1):  # every control position, exhaustively
        cc = must(lambda: c.controlled(k), f"controlled({k})")
        # the control and the image of every qubit an original operation touches lie inside the result's register
        # (idle qubits of the original are not claimed: the library infers the width from the operations)
        touched = [q + (1 if q >= k else 0) for op in c.operations for q in op.qubit_indices]
        require(cc.n_qubits >= max(touched + [k]) + 1, lambda: f"controlled({k}) has {cc.n_qubits} qubits but the original operations touch qubits up to {max(touched + [k])} after the shift")
        W = max(cc.n_qubits, n + 1)
        Uc = own_matrix(Circuit(cc.operations, W), W)
        others = [q for q in range(W) if q != k]
        Upad = own_matrix(Circuit(c.operations, W - 1), W - 1)
        R = ref.embed(ref.controlled(Upad, 1), [k] + others, W)
        require(ref.close(Uc, R), lambda: f"controlled({k}): not identity for control 0 / original on the shifted qubits for control 1, max|d|={ref.maxdiff(Uc, R):.3g}")
    multi = any(len(o["q"]) >= 2 for o in spec["ops"])
    if n >= 2 and multi:
        cl.add("inner_control_with_multiqubit_gate")
    return {"classes": cl, "nontrivial": n >= 2 and multi}


FACTORIES = ["X", "H", "RX", "PHASE", "U3", "GPi", "Delay", "RY", "T", "RH"]


@st.composite
def layer_cases(draw, tier):
    nm = draw(st.sampled_from(FACTORIES))
    npar = cgen.TABLE[nm][1]
    n = draw(st.integers(1, 7))
    qs = draw(st.lists(st.integers(0, 9), min_size=1, max_size=7))
    uq = sorted(set(qs))
    base = draw(cgen.circuit_specs(max_n=3, max_ops=3, min_ops=0, max_mods=1))
    return {
        "g": nm, "n": n,
        "rows": [[draw(cgen.angles()) for _ in range(npar)] for _ in range(n)] if npar else None,
        "qs": qs,
        "qrows": [[draw(cgen.angles()) for _ in range(npar)] for _ in uq] if npar else None,
        "as_tuple": draw(st.booleans()), "base": base,
        "rows_kind": draw(st.sampled_from(["lists", "lists", "tuples", "tuple_of_tuples"])),
    }


def o_layer(spec):
    from orquestra.quantum.circuits import (Circuit, apply_gate_to_qubits, builtin_gate_by_name,
                                            create_layer_of_gates)

    nm, n = spec["g"], spec["n"]
    fac = builtin_gate_by_name(nm)

    def shaped(rows):  # a parameter row is any sequence of numbers: lists, tuples, ...
        kind = spec.get("rows_kind", "lists")
        if rows is None or kind == "lists":
            return rows
        rows = [tuple(r) for r in rows]
        return tuple(rows) if kind == "tuple_of_tuples" else rows

    L = must(lambda: create_layer_of_gates(n, fac, shaped(spec["rows"])), "create_layer_of_gates")
    require(len(L.operations) == n, lambda: f"layer over {n} qubits holds {len(L.operations)} operations")
    require(L.n_qubits == n, lambda: f"layer over {n} qubits has width {L.n_qubits}")
    seen = sorted(op.qubit_indices for op in L.operations)
    require(seen == [(q,) for q in range(n)], lambda: f"layer does not hold one gate on each of 0..{n - 1}: {seen}")
    for op in L.operations:
        require(op.gate.name == nm and op.gate.num_qubits == 1, lambda: f"layer holds a foreign gate {op}")
        if spec["rows"] is not None:
            q = op.qubit_indices[0]
            require(list(op.gate.params) == spec["rows"][q], lambda: f"qubit {q} got parameters {op.gate.params}, row {q} is {spec['rows'][q]}")
    # apply_gate_to_qubits on an existing circuit
    c0 = cgen.build_circuit(spec["base"]) if spec["base"]["ops"] else Circuit()
    ops0 = list(c0.operations)
    qs = tuple(spec["qs"]) if spec["as_tuple"] else list(spec["qs"])
    uq = sorted(set(spec["qs"]))
    with warnings.catch_warnings():
        warnings.simplefilter("ignore")
        c1 = must(lambda: apply_gate_to_qubits(c0, qs, fac, shaped(spec["qrows"])), "apply_gate_to_qubits")
    require(list(c0.operations) == ops0, "apply_gate_to_qubits modified the circuit it was given")
    require(list(c1.operations[: len(ops0)]) == ops0, "existing operations are not kept in place as a prefix")
    new = list(c1.operations[len(ops0):])
    require(sorted(op.qubit_indices for op in new) == [(q,) for q in uq], lambda: f"new gates on {sorted(op.qubit_indices for op in new)}, expected one per distinct qubit {uq}")
    require(all(op.gate.name == nm for op in new), "a new operation is not the requested gate")
    if spec["qrows"] is not None:
        used = sorted(list(op.gate.params) for op in new)
        require(used == sorted(spec["qrows"]), lambda: f"parameter rows used {used} are not the rows supplied {sorted(spec['qrows'])}")
    require(c1.n_qubits == max(c0.n_qubits, max(uq) + 1), lambda: f"width after apply is {c1.n_qubits}")
    dup = len(uq) != len(spec["qs"])
    return {"classes": (["duplicate_qubits"] if dup else []) + (["parametric"] if spec["rows"] is not None else ["fixed"])
            + (["unsorted_collection"] if list(spec["qs"]) != sorted(spec["qs"]) else []) + (["rows:" + spec.get("rows_kind", "lists")] if spec["rows"] is not None else []), "nontrivial": dup or n >= 2}


@st.composite
def anc_cases(draw, tier):
    spec = draw(cgen.circuit_specs(max_n=3 if tier == "quick" else 4, max_ops=4, min_ops=0))
    spec["anc"] = draw(st.integers(0, 3))
    if not spec["ops"] and spec["width"] is None:
        spec["width"] = spec["n"]
    return spec


def o_ancilla(spec):
    from orquestra.quantum.circuits import Circuit, add_ancilla_register

    c = cgen.build_circuit(spec) if spec["ops"] else Circuit([], spec["width"])
    n = c.n_qubits
    a = spec["anc"]
    ops0 = list(c.operations)
    ca = must(lambda: add_ancilla_register(c, a), "add_ancilla_register")
    require(ca.n_qubits == n + a, lambda: f"{a} ancillas on width {n} give width {ca.n_qubits}")
    require(list(c.operations) == ops0 and c.n_qubits == n, "add_ancilla_register modified its argument")
    U = own_matrix(c, n)
    Ua = own_matrix(ca, n + a)
    R = np.kron(U, np.eye(2 ** a))
    require(ref.close(Ua, R), lambda: f"action on the original qubits changed, max|d|={ref.maxdiff(Ua, R):.3g}")
    require(list(ca.operations[: len(ops0)]) == ops0, "original operations not kept")
    return {"classes": ["anc:%d" % a] + (["idle_top"] if "idle" in cgen.circuit_classes(spec) else []), "nontrivial": a >= 1 and len(ops0) >= 1}


SUBCHECKS = [
    SubCheck("inverse", o_inverse, strategy=inv_cases, examples=(250, 1000), shards=(4, 12), fork_timeout=30,
             rule="M(inverse) == M(circuit)^dagger, circuit + inverse == I (unitary gates), double inverse acts as the original"),
    SubCheck("controlled", o_controlled, strategy=ctl_cases, examples=(150, 600), shards=(5, 12), fork_timeout=40,
             rule="every control position 0..n: block semantics on the padded register"),
    SubCheck("layers", o_layer, strategy=layer_cases, examples=(800, 4000), shards=(2, 6),
             rule="create_layer_of_gates / apply_gate_to_qubits: one gate per (distinct) qubit, row i on qubit i, prefix kept"),
    SubCheck("ancilla", o_ancilla, strategy=anc_cases, examples=(250, 1000), shards=(2, 6), fork_timeout=30,
             rule="add_ancilla_register: width + k, action = old (x) identity"),
    SubCheck("inverse_symbolic", o_inverse_symbolic, strategy=inv_sym_cases, examples=(60, 300), shards=(4, 12), fork_timeout=60,
             rule="circuits with free symbols (angles, and the parameter z of a user-defined gate diag(1, z) evaluated on the unit circle): inverse().to_unitary() is the conjugate transpose, circuit + inverse == I"),
]
SUBCHECKS[4].expected_classes = ["non_angle_parameter", "symbolic_angle"]
SUBCHECKS[0].expected_classes = ["permuted", "non_adjacent", "wrapped", "custom", "idle", "exp_wrapper"]
SUBCHECKS[1].expected_classes = ["inner_control_with_multiqubit_gate", "wrapped", "permuted"]
SUBCHECKS[2].expected_classes = ["duplicate_qubits", "parametric", "fixed", "unsorted_collection"]
